(* C11 — Field presence follows the declared presence discipline.
   Statements only; each closed by [exact] of a lemma proved in Msg/PresenceP.v. *)
From Coq Require Import List NArith Bool.
From PB Require Import Base.PBytes Wire.WireModel Msg.PresenceModel Msg.PresenceP Msg.OneofModel Msg.OneofP.
From PB Require Import Msg.MsgSchema Msg.MsgValue Msg.MsgEnc Msg.MsgDec Msg.MsgValid Msg.MsgExample Msg.PresenceCodec Msg.PresenceCodecP.
Import ListNotations.
Open Scope N_scope.

(** HasPresence (filedesc.Field / filedesc.Extension) is the declared presence discipline,
    for every well-formed combination of syntax, label, oneof membership, proto3_optional,
    message kind, extension and resolved features.field_presence. *)
Theorem C11_has_presence_spec :
  forall a, valid_attr a = true -> has_presence a = presence_rule a.
Proof. exact has_presence_spec. Qed.
Print Assumptions C11_has_presence_spec.
Example C11_has_presence_spec_nonvacuous :
  valid_attr (mkFattr SEditions LOptional false false false false FPImplicit) = true /\
  has_presence (mkFattr SEditions LOptional false false false false FPImplicit) = false /\
  valid_attr (mkFattr SProto3 LOptional false true false false FPImplicit) = true /\
  has_presence (mkFattr SProto3 LOptional false true false false FPImplicit) = true.
Proof. repeat split. Qed.

(** the same table, as a computation over the enumeration of all 432 combinations *)
Theorem C11_has_presence_table :
  forallb (fun a => implb (valid_attr a) (Bool.eqb (has_presence a) (presence_rule a))) all_attrs = true.
Proof. exact table_ok_all. Qed.
Print Assumptions C11_has_presence_table.

(** bitmap_refines_set: the uint32 word array is a finite set of indices. *)
Theorem C11_bitmap_set_refines :
  forall s i j, i < 32 * N.of_nat (length s) ->
  bm_present (bm_set s i) j = (i =? j) || bm_present s j.
Proof. exact bm_set_present. Qed.
Print Assumptions C11_bitmap_set_refines.
Example C11_bitmap_set_refines_nonvacuous :
  bm_present (bm_set [0; 0; 0] 70) 70 = true /\ bm_present (bm_set [0; 0; 0] 70) 38 = false.
Proof. split; reflexivity. Qed.

Theorem C11_bitmap_clear_refines :
  forall s i j, bm_present (bm_clear s i) j = negb (i =? j) && bm_present s j.
Proof. exact bm_clear_present. Qed.
Print Assumptions C11_bitmap_clear_refines.

Theorem C11_bitmap_other_words_untouched :
  forall s i k, k <> N.to_nat (pword i) ->
  nth_error (bm_set s i) k = nth_error s k /\ nth_error (bm_clear s i) k = nth_error s k /\
  length (bm_set s i) = length s /\ length (bm_clear s i) = length s.
Proof.
  exact (fun s i k H => conj (bm_set_other_words s i k H) (conj (bm_clear_other_words s i k H)
           (conj (bm_set_length s i) (bm_clear_length s i)))).
Qed.
Print Assumptions C11_bitmap_other_words_untouched.
Example C11_bitmap_other_words_nonvacuous : 1%nat <> N.to_nat (pword 70).
Proof. discriminate. Qed.

(** every history of SetPresent / SetPresentNonAtomic / ClearPresent, every index *)
Theorem C11_bitmap_refines_set :
  forall ops s j,
  Forall (fun o => bmop_index o < 32 * N.of_nat (length s)) ops ->
  bm_present (bm_run s ops) j = set_run (bm_present s) ops j.
Proof. exact bm_run_refines. Qed.
Print Assumptions C11_bitmap_refines_set.
Example C11_bitmap_refines_set_nonvacuous :
  Forall (fun o => bmop_index o < 32 * N.of_nat (length [0; 0])) [BSet 33; BClear 1; BSetNA 63].
Proof. repeat constructor. Qed.

(** AnyPresent(size) is true iff some index of the scanned words is present *)
Theorem C11_bitmap_any_present :
  forall s size, bm_wf s -> size + 31 < 2^32 -> (size + 31) / 32 <= N.of_nat (length s) ->
  (bm_any s size = true <-> exists i, i < 32 * ((size + 31) / 32) /\ bm_present s i = true).
Proof. exact bm_any_spec. Qed.
Print Assumptions C11_bitmap_any_present.
Example C11_bitmap_any_present_nonvacuous :
  bm_wf [0; 2] /\ 33 + 31 < 2^32 /\ (33 + 31) / 32 <= N.of_nat (length [0; 2]) /\ bm_any [0; 2] 33 = true
  /\ bm_any [0; 2] 32 = false.
Proof. repeat split; try (repeat constructor; fail); try reflexivity. Qed.
Theorem C11_bitmap_words_stay_uint32 :
  forall ops s, bm_wf s -> bm_wf (bm_run s ops) /\ length (bm_run s ops) = length s.
Proof. exact (fun ops s H => conj (bm_run_wf ops s H) (bm_run_length ops s)). Qed.
Print Assumptions C11_bitmap_words_stay_uint32.

(** has_correct: Has after every history, per field class *)
Theorem C11_has_correct_explicit :
  forall ops, fhas (frun (StOpt None) ops) = rule_explicit ops.
Proof. exact explicit_has_correct. Qed.
Print Assumptions C11_has_correct_explicit.

Theorem C11_has_explicit_set_even_zero :
  forall ops v, fhas (frun (StOpt None) (ops ++ [OpSet v])) = true.
Proof. exact explicit_has_after_set. Qed.
Print Assumptions C11_has_explicit_set_even_zero.

Theorem C11_has_explicit_until_clear :
  forall ops, fhas (frun (StOpt None) (ops ++ [OpClear])) = false.
Proof. exact explicit_not_has_after_clear. Qed.
Print Assumptions C11_has_explicit_until_clear.

Theorem C11_has_correct_implicit :
  forall zero ops, fhas (frun (StVal zero) ops) = rule_implicit zero ops.
Proof. exact implicit_has_correct. Qed.
Print Assumptions C11_has_correct_implicit.

Theorem C11_has_implicit_iff_nonzero :
  forall zero ops v, fhas (frun (StVal zero) (ops ++ [OpSet v])) = nonzero v.
Proof. exact implicit_has_after_set. Qed.
Print Assumptions C11_has_implicit_iff_nonzero.

(** a float counts as zero only if all its bits are zero: -0.0 is populated *)
Theorem C11_float_zero_iff_bits :
  forall w bits, 0 < w -> bits < 2^w ->
  (float_ne0 w bits || float_signbit w bits = false <-> bits = 0).
Proof. exact float_has_iff_bits. Qed.
Print Assumptions C11_float_zero_iff_bits.
Example C11_float_negzero_populated : nonzero (PVF64 (2^63)) = true /\ nonzero (PVF32 (2^31)) = true /\ nonzero (PVF64 0) = false.
Proof. repeat split. Qed.

Theorem C11_has_correct_list :
  forall ops l,
  frun (StList l) ops = StList (list_contents l ops) /\
  fhas (frun (StList l) ops) = negb (Nat.eqb (length (list_contents l ops)) 0).
Proof. exact list_has_correct. Qed.
Print Assumptions C11_has_correct_list.

Theorem C11_has_correct_map :
  forall ops m,
  frun (StMap m) ops = StMap (map_contents m ops) /\
  fhas (frun (StMap m) ops) = negb (Nat.eqb (length (map_contents m ops)) 0).
Proof. exact map_has_correct. Qed.
Print Assumptions C11_has_correct_map.

(** the opaque representation: the presence bit of field i in the shared bitmap, under a
    history that touches any fields of the message, is the explicit-presence rule applied to
    the operations on field i *)
Theorem C11_has_correct_opaque :
  forall h nwords vals i,
  Forall (fun io => fst io < 32 * N.of_nat nwords) h ->
  ohas (orun (mkO (repeat 0 nwords) vals) h) i = rule_explicit (ops_of i h).
Proof. exact opaque_has_rule. Qed.
Print Assumptions C11_has_correct_opaque.
Example C11_has_correct_opaque_nonvacuous :
  Forall (fun io => fst io < 32 * N.of_nat 3) [(70, OpSet (PVInt 0)); (6, OpSet (PVInt 1)); (70, OpClear)].
Proof. repeat constructor. Qed.

(** presenceIndex: two different fields outside oneofs never share a presence bit, and every
    such index is below presenceSize (so it lies inside the XXX_presence array) *)
Theorem C11_presence_index_distinct :
  forall fs i j bi bj, i <> j -> nth_error fs i = Some (false, bi) -> nth_error fs j = Some (false, bj) ->
  fst (presence_index fs i) <> fst (presence_index fs j).
Proof. exact presence_index_distinct. Qed.
Print Assumptions C11_presence_index_distinct.
Theorem C11_presence_index_in_range :
  forall fs j b, nth_error fs j = Some (false, b) -> fst (presence_index fs j) < snd (presence_index fs j).
Proof. exact presence_index_lt_size. Qed.
Print Assumptions C11_presence_index_in_range.
Example C11_presence_index_nonvacuous :
  presence_index [(false, false); (true, false); (true, true); (false, false)] 3 = (2, 3).
Proof. reflexivity. Qed.

(** oneof members: Has iff the member is the selected one (from the oneof model of C12) *)
Theorem C11_has_oneof_member_iff_selected :
  forall w m, whas w m = true <-> wwhich w = Some m.
Proof. exact whas_iff_which. Qed.
Print Assumptions C11_has_oneof_member_iff_selected.

(** round trips, against the minimal single-field varint codec of PresenceModel.v only; kept for
    the tie to the op-history model.  The statements over the full message codec of C03, for
    every schema table, field kind and cardinality, follow below. *)
Theorem C11_implicit_zero_not_encoded_partial :
  forall num st,
  (exists n, st = StVal (PVInt n)) \/ (exists b, st = StVal (PVBool b)) ->
  (enc_field FCImplicit num st = [] <-> fhas st = false).
Proof. exact implicit_zero_not_encoded. Qed.
Print Assumptions C11_implicit_zero_not_encoded_partial.
Example C11_implicit_zero_not_encoded_nonvacuous :
  enc_field FCImplicit 1 (StVal (PVInt 0)) = [] /\ enc_field FCImplicit 1 (StVal (PVInt 1)) <> [].
Proof. split; [reflexivity|discriminate]. Qed.

Theorem C11_explicit_survives_roundtrip_partial :
  forall num st, encode_tag num 0 < 2^64 ->
  match st with Some v => v < 2^64 | None => True end ->
  dec_explicit num (enc_explicit num st) = Ok st.
Proof. exact explicit_roundtrip. Qed.
Print Assumptions C11_explicit_survives_roundtrip_partial.
Example C11_explicit_survives_roundtrip_nonvacuous :
  dec_explicit 5 (enc_explicit 5 (Some 0)) = Ok (Some 0) /\ enc_explicit 5 (Some 0) <> [].
Proof. split; [reflexivity|discriminate]. Qed.

(* ------------------------------------------------------------------------------------------ *)
(** * C11 over the full binary codec of C03 (Msg/MsgSchema, MsgValue, MsgEnc, MsgDec, MsgValid)

    [pc_has S tid v f] is Has of field f on a canonical message value v of type tid, defined by
    the presence rule of the cardinality class of f in the schema table: explicit presence
    (COpt, CReq: optional / required / oneof members / messages) -- a value is stored, whatever it
    is; implicit presence (CImp) -- the stored scalar is non-zero; repeated and map -- non-empty.
    All theorems are for every schema table S (recursive types, all 16 scalar kinds, enum,
    message, group, packed and expanded lists, maps, oneofs, extensions), both decoder paths and
    every recursion limit. *)

(** On canonical values Has is "the value has an entry for the field": an implicit-presence
    zero is never stored, an explicit-presence default is. *)
Theorem C11_has_canonical_iff_present :
  forall slow S dep tid v num,
  msg_typed slow S dep tid v = true -> pc_has S tid v num = pc_present v num.
Proof. exact pc_has_present. Qed.
Print Assumptions C11_has_canonical_iff_present.

(** The wire-tree scanner of Wire/WireModel.v ([parse_fields], protowire.ConsumeField in a loop)
    reads the encoding of a canonical value as: the wire fields [pc_wire] of the known part,
    followed by exactly the wire fields of the preserved unknown bytes; and the field numbers of
    the known part are exactly the populated fields.  Both directions of the property text:
    an unpopulated field (in particular an implicit-presence zero) is not encoded, every
    populated field (in particular an explicit-presence field holding its default) is.
    [pc_groups_scan]: top-level group values pass the scanner within its nesting budget -- part
    of msg_valid on the reflection path, the exclusion of finding FB3 on the table-driven path,
    vacuous for message types without group fields (three theorems below). *)
Theorem C11_encoded_fields_are_populated_fields :
  forall slow S limit tid v,
  msg_valid slow S limit tid v = true -> pc_groups_scan S tid v = true ->
  exists wu,
    parse_fields (x00 :: pc_unknown v) default_dep (pc_unknown v) [] = Ok wu /\
    parse_fields (x00 :: msg_encode S tid v) default_dep (msg_encode S tid v) [] = Ok (pc_wire S tid v ++ wu) /\
    forall f, In f (map fst (pc_wire S tid v)) <-> pc_has S tid v f = true.
Proof. exact pc_encode_fields. Qed.
Print Assumptions C11_encoded_fields_are_populated_fields.

Theorem C11_implicit_zero_not_encoded :
  forall slow S limit tid v f,
  msg_valid slow S limit tid v = true -> pc_groups_scan S tid v = true ->
  pc_has S tid v f = false -> ~ In f (map fst (pc_wire S tid v)).
Proof. exact pc_unpopulated_not_encoded. Qed.
Print Assumptions C11_implicit_zero_not_encoded.

Theorem C11_populated_field_encoded :
  forall slow S limit tid v f,
  msg_valid slow S limit tid v = true -> pc_groups_scan S tid v = true ->
  pc_has S tid v f = true -> In f (map fst (pc_wire S tid v)).
Proof. exact pc_populated_encoded. Qed.
Print Assumptions C11_populated_field_encoded.

(** without unknown bytes: the scanner output names exactly the populated fields *)
Theorem C11_encoded_fields_no_unknown :
  forall slow S limit tid fs,
  msg_valid slow S limit tid (VMsg fs []) = true -> pc_groups_scan S tid (VMsg fs []) = true ->
  exists wfs, parse_fields (x00 :: msg_encode S tid (VMsg fs [])) default_dep (msg_encode S tid (VMsg fs [])) [] = Ok wfs /\
    forall f, In f (map fst wfs) <-> pc_has S tid (VMsg fs []) f = true.
Proof. exact pc_encode_fields_no_unknown. Qed.
Print Assumptions C11_encoded_fields_no_unknown.

(** for an implicit-presence field Has is the non-zero test of the stored scalar *)
Theorem C11_implicit_has_iff_nonzero_canonical :
  forall slow S dep tid fs unk num fd,
  msg_typed slow S dep tid (VMsg fs unk) = true ->
  msg_find_field (nth tid S []) num = Some fd -> f_card fd = CImp ->
  pc_has S tid (VMsg fs unk) num =
  match msg_fget fs num with [VS s] => negb (msg_scalar_is_zero s) | _ => false end.
Proof. exact pc_implicit_has_iff_nonzero. Qed.
Print Assumptions C11_implicit_has_iff_nonzero_canonical.

(** the scan condition *)
Theorem C11_scan_condition_reflection_path :
  forall S limit tid v, msg_valid true S limit tid v = true -> pc_groups_scan S tid v = true.
Proof. exact pc_valid_slow_scans. Qed.
Print Assumptions C11_scan_condition_reflection_path.
Theorem C11_scan_condition_no_groups :
  forall (S : schema) tid v,
  (forall fd, In fd (nth tid S ([] : mdesc)) -> match f_kind fd with KGrp _ => False | _ => True end) ->
  pc_groups_scan S tid v = true.
Proof. exact pc_no_groups_scans. Qed.
Print Assumptions C11_scan_condition_no_groups.

(** explicit_survives_roundtrip: Has of every field -- explicit-presence fields holding their
    default included -- is the same after Unmarshal(Marshal(v)) (from C03_roundtrip) *)
Theorem C11_explicit_survives_roundtrip :
  forall slow S limit tid v,
  msg_valid slow S limit tid v = true ->
  exists v', msg_decode slow S limit tid (msg_encode S tid v) = DOk v' /\
             forall f, pc_has S tid v' f = pc_has S tid v f.
Proof. exact pc_has_roundtrip. Qed.
Print Assumptions C11_explicit_survives_roundtrip.

(* non-vacuity on the example of C03 (13 fields of all shapes, unknown bytes, a group list):
   field 8 is an explicit-presence bytes member of a oneof holding the empty string (its
   default) and is populated and encoded; field 9 (the other member) and field 2's siblings are
   not; field 4 holds the zero 0 inside a list (lists are not subject to the zero rule) *)
Example C11_codec_nonvacuous :
  msg_valid false ex_schema 3 0 ex_msg = true /\ pc_groups_scan ex_schema 0 ex_msg = true /\
  pc_has ex_schema 0 ex_msg 8 = true /\ pc_has ex_schema 0 ex_msg 9 = false /\
  map fst (pc_wire ex_schema 0 ex_msg) = [100; 1; 2; 3; 4; 4; 5; 5; 6; 7; 7; 10; 11; 12; 12; 8].
Proof. vm_compute. repeat split; reflexivity. Qed.
(* a stored implicit-presence zero is not canonical *)
Example C11_codec_implicit_zero_not_canonical :
  msg_valid false ex_schema 3 0 (VMsg [(2, [VS (SBy [])])] []) = false /\
  msg_valid false ex_schema 3 0 (VMsg [(8, [VS (SBy [])])] []) = true.
Proof. vm_compute. split; reflexivity. Qed.

(** the cardinality class that the harness of C03 derives for its schema tables
    (common_msg.go msgFieldToken: 0 explicit, 1 implicit, 2 required, 3/4 repeated, 5 map) is the
    class the HasPresence decision table gives: explicit-or-required iff HasPresence *)
Theorem C11_schema_card_explicit_iff_has_presence :
  forall a packed, valid_attr a = true -> is_repeated (fa_label a) = false ->
  pc_card_explicit (pc_card a false packed) = has_presence a.
Proof. exact pc_card_explicit_iff_presence. Qed.
Print Assumptions C11_schema_card_explicit_iff_has_presence.
Theorem C11_schema_card_implicit_iff :
  forall a packed, valid_attr a = true ->
  (pc_card a false packed = 1 <-> (is_repeated (fa_label a) = false /\ has_presence a = false)).
Proof. exact pc_card_implicit_iff. Qed.
Print Assumptions C11_schema_card_implicit_iff.

(* ------------------------------------------------------------------------------------------ *)
(** * Tier T: the statements above for the Gallina translation of the Go source

    Gen/PresenceGo.v is regenerated on every check from internal/impl/presence.go and
    api_export_opaque.go by srcmodel_presence (unsafe pointer arithmetic kept: addresses are
    absolute, the XXX_presence array is [heap_of P s] = words [s] stored from address [P] on; an
    access outside the array is the outcome Panic).  Proofs: Msg/PresenceGoP.v.  [addr_ok P s]:
    the array lies inside the 64-bit address space.  Single-threaded: atomic.CompareAndSwapUint32
    is one sequentially consistent step (interleavings are C18's concern). *)
From Coq Require Import ZArith.
From PB Require Import Base.GoInt Msg.PresenceHeap Gen.PresenceGo Msg.PresenceGoP.
Open Scope N_scope.

(** toElem addresses word num/32: 4 * (num / 32) bytes from the base *)
Theorem C11_go_toElem_word_address :
  forall P s num, addr_ok P s -> num < 32 * N.of_nat (length s) ->
  go_presence_toElem P (Z.of_N num) = (P + 4 * Z.of_N (pword num))%Z.
Proof. exact go_toElem_model. Qed.
Print Assumptions C11_go_toElem_word_address.
Example C11_go_nonvacuous :
  addr_ok 4096 [0; 0; 0] /\ 70 < 32 * N.of_nat (length [0; 0; 0]) /\ bm_wf [0; 0; 0] /\
  go_presence_toElem 4096 70 = 4104%Z /\
  go_presence_SetPresent (heap_of 4096 [0; 0; 0]) 4096 70 96 = Val (heap_of 4096 [0; 0; 64]) /\
  go_presence_Present (heap_of 4096 [0; 0; 64]) 4096 70 = Val true /\
  go_presence_Present (heap_of 4096 [0; 0; 64]) 4096 38 = Val false /\
  go_presence_Present (heap_of 4096 [0; 0; 64]) 4096 96 = Panic /\
  go_presence_ClearPresent (heap_of 4096 [0; 5; 64]) 4096 34 = Val (heap_of 4096 [0; 1; 64]) /\
  go_presence_AnyPresent (heap_of 4096 [0; 2]) 4096 33 = Val true /\
  go_presence_AnyPresent (heap_of 4096 [0; 2]) 4096 32 = Val false.
Proof. unfold addr_ok. repeat split; try (repeat constructor; fail); try reflexivity; vm_compute; congruence. Qed.

Theorem C11_go_Present_eq_model :
  forall P s num, addr_ok P s -> num < 32 * N.of_nat (length s) ->
  go_presence_Present (heap_of P s) P (Z.of_N num) = Val (bm_present s num).
Proof. exact go_Present_model. Qed.
Print Assumptions C11_go_Present_eq_model.

(** beyond the array the source reads memory it does not own *)
Theorem C11_go_Present_outside_array_faults :
  forall P s num, addr_ok P s -> num < 2^32 -> 32 * N.of_nat (length s) <= num ->
  go_presence_Present (heap_of P s) P (Z.of_N num) = Panic.
Proof. exact go_Present_out_of_range. Qed.
Print Assumptions C11_go_Present_outside_array_faults.

Theorem C11_go_SetPresent_eq_model :
  forall P s num size, addr_ok P s -> bm_wf s -> num < 32 * N.of_nat (length s) ->
  go_presence_SetPresent (heap_of P s) P (Z.of_N num) size = Val (heap_of P (bm_set s num)).
Proof. exact go_SetPresent_model. Qed.
Print Assumptions C11_go_SetPresent_eq_model.

Theorem C11_go_SetPresentUnatomic_eq_model :
  forall P s num size, addr_ok P s -> bm_wf s -> num < 32 * N.of_nat (length s) ->
  go_presence_SetPresentUnatomic (heap_of P s) P (Z.of_N num) size = Val (heap_of P (bm_set s num)).
Proof. exact go_SetPresentUnatomic_model. Qed.
Print Assumptions C11_go_SetPresentUnatomic_eq_model.

Theorem C11_go_ClearPresent_eq_model :
  forall P s num, addr_ok P s -> num < 32 * N.of_nat (length s) ->
  go_presence_ClearPresent (heap_of P s) P (Z.of_N num) = Val (heap_of P (bm_clear s num)).
Proof. exact go_ClearPresent_model. Qed.
Print Assumptions C11_go_ClearPresent_eq_model.

Theorem C11_go_AnyPresent_eq_model :
  forall P s size, addr_ok P s -> size < 2^32 -> u32 (size + 31) / 32 <= N.of_nat (length s) ->
  go_presence_AnyPresent (heap_of P s) P (Z.of_N size) = Val (bm_any s size).
Proof. exact go_AnyPresent_model. Qed.
Print Assumptions C11_go_AnyPresent_eq_model.

Theorem C11_go_LoadPresenceCache_first_word :
  forall P s, addr_ok P s -> (0 < P)%Z -> (0 < length s)%nat ->
  go_presence_LoadPresenceCache (heap_of P s) P = Val (Z.of_N (nth 0 s 0)).
Proof. exact go_LoadPresenceCache_model. Qed.
Print Assumptions C11_go_LoadPresenceCache_first_word.

(** the set-refinement statements (C11_bitmap_set_refines / _clear_refines / _any_present) for
    the translated source, in terms of the translated Present *)
Theorem C11_go_SetPresent_refines_set :
  forall P s i j size,
  addr_ok P s -> bm_wf s -> i < 32 * N.of_nat (length s) -> j < 32 * N.of_nat (length s) ->
  exists h', go_presence_SetPresent (heap_of P s) P (Z.of_N i) size = Val h' /\
    (forall b, go_presence_Present (heap_of P s) P (Z.of_N j) = Val b ->
               go_presence_Present h' P (Z.of_N j) = Val ((i =? j) || b)).
Proof. exact go_SetPresent_then_Present. Qed.
Print Assumptions C11_go_SetPresent_refines_set.

Theorem C11_go_SetPresentUnatomic_refines_set :
  forall P s i j size,
  addr_ok P s -> bm_wf s -> i < 32 * N.of_nat (length s) -> j < 32 * N.of_nat (length s) ->
  exists h', go_presence_SetPresentUnatomic (heap_of P s) P (Z.of_N i) size = Val h' /\
    (forall b, go_presence_Present (heap_of P s) P (Z.of_N j) = Val b ->
               go_presence_Present h' P (Z.of_N j) = Val ((i =? j) || b)).
Proof. exact go_SetPresentUnatomic_then_Present. Qed.
Print Assumptions C11_go_SetPresentUnatomic_refines_set.

Theorem C11_go_ClearPresent_refines_set :
  forall P s i j,
  addr_ok P s -> i < 32 * N.of_nat (length s) -> j < 32 * N.of_nat (length s) ->
  exists h', go_presence_ClearPresent (heap_of P s) P (Z.of_N i) = Val h' /\
    (forall b, go_presence_Present (heap_of P s) P (Z.of_N j) = Val b ->
               go_presence_Present h' P (Z.of_N j) = Val (negb (i =? j) && b)).
Proof. exact go_ClearPresent_then_Present. Qed.
Print Assumptions C11_go_ClearPresent_refines_set.

Theorem C11_go_AnyPresent_iff_some_bit :
  forall P s size,
  addr_ok P s -> bm_wf s -> size + 31 < 2^32 -> (size + 31) / 32 <= N.of_nat (length s) ->
  exists b, go_presence_AnyPresent (heap_of P s) P (Z.of_N size) = Val b /\
    (b = true <-> exists i, i < 32 * ((size + 31) / 32) /\
                            go_presence_Present (heap_of P s) P (Z.of_N i) = Val true).
Proof. exact go_AnyPresent_iff_some_bit. Qed.
Print Assumptions C11_go_AnyPresent_iff_some_bit.
