(* C19 — Concurrent first use of types, descriptors and registries is safe.
   Statements only; each closed by [exact] of a lemma proved in Conc/InitOnceP.v.

   Two protocol models (Conc/InitOnceModel.v), any number of threads, every trace:
   (1) double-checked locking as in impl.MessageInfo.init, filedesc.File.lazyInit
       and sync.Once: atomic flag, mutex, re-check (of the flag, or of the data:
       both variants are covered by the [recheck_data] parameter), body, store, unlock;
   (2) the RWMutex-guarded global registries of reflect/protoregistry.

   Memory-model assumption (explicit in the model, NOT proved): a thread obtains a
   happens-before edge from the completed initialisation body only by running the
   body, by an atomic load that reads the flag written by a thread that had the
   edge, or by locking the mutex after an unlock by a thread that had the edge
   (release/acquire semantics of sync/atomic and sync.Mutex in the Go memory model).
   [i_knows] is that edge; a return without it would be a data race on the
   initialised data.  Absence of data races in the compiled code is supported only
   by the race-detector runs of the harness (family conc19).                      *)
From Coq Require Import List.
From PB Require Import Conc.InitOnceModel Conc.InitOnceP.
Import ListNotations.

(* The body is entered at most once, only by the lock holder, while the flag is
   clear; the initialised data is never written after the flag is set. *)
Theorem C19_init_body_at_most_once :
  forall c s, ireachable c s ->
  body_runs s <= 1 /\ writes_after_done s = 0 /\
  (forall t u, i_pc (ithr s t) = IBody -> i_pc (ithr s u) = IBody -> t = u) /\
  (forall t, i_pc (ithr s t) = IBody -> mu s = Some t /\ flag s = false).
Proof. exact init_body_at_most_once. Qed.
Print Assumptions C19_init_body_at_most_once.

(* Every return from init (fast path, after waiting for the lock, or after running
   the body) observed the flag set, has the happens-before edge, and reads the
   completely initialised data: each recorded return is (flag, knows, data) =
   (true, true, all of the body's writes). *)
Theorem C19_return_implies_initialized :
  forall c s, ireachable c s ->
  forall t r, In r (i_rets (ithr s t)) -> r = (true, true, body_len c).
Proof. exact return_implies_initialized. Qed.
Print Assumptions C19_return_implies_initialized.

Theorem C19_returning_thread_synchronised :
  forall c s, ireachable c s ->
  forall t, i_pc (ithr s t) = IRet \/ i_knows (ithr s t) = true ->
    data s = body_len c /\ body_runs s = 1 /\ (forall u, i_pc (ithr s u) <> IBody).
Proof. exact returning_thread_synchronised. Qed.
Print Assumptions C19_returning_thread_synchronised.

(* non-vacuity, for both variants of the re-check: a slow-path waiter, the initialiser
   and a fast-path reader all return (true, true, 2); the body ran once *)
Example C19_init_once_nonvacuous :
  forall d,
  ireachable (ex_icfg d) (ex_istate d) /\
  i_rets (ithr (ex_istate d) 0) = [(true, true, 2)] /\
  i_rets (ithr (ex_istate d) 1) = [(true, true, 2)] /\
  i_rets (ithr (ex_istate d) 2) = [(true, true, 2)] /\
  body_runs (ex_istate d) = 1.
Proof. exact ex_init_once. Qed.

(* Each finished lookup saw exactly the items of a prefix C of the sequence of
   completed registrations; C contains every registration that had completed when
   the lookup was invoked.  So a lookup sees all registrations completed before it
   started, never a registration in progress, and every registration entirely. *)
Theorem C19_registry_lookup_sees_completed_registrations :
  forall c s, rreachable c s ->
  forall t lk, In lk (r_done (rthr s t)) ->
    exists C, l_seen lk = contents c C /\ prefix (l_pre lk) C /\ prefix C (completed s).
Proof. exact registry_lookup_sees_completed_registrations. Qed.
Print Assumptions C19_registry_lookup_sees_completed_registrations.

(* any two lookups are ordered: one saw a prefix of what the other saw *)
Theorem C19_registry_lookups_totally_ordered :
  forall c s, rreachable c s ->
  forall t1 t2 k1 k2, In k1 (r_done (rthr s t1)) -> In k2 (r_done (rthr s t2)) ->
    (exists r, l_seen k2 = l_seen k1 ++ r) \/ (exists r, l_seen k1 = l_seen k2 ++ r).
Proof. exact registry_lookups_totally_ordered. Qed.
Print Assumptions C19_registry_lookups_totally_ordered.

Theorem C19_registry_mutual_exclusion :
  forall c s, rreachable c s ->
  (forall t u r1 d1 r2 d2, r_pc (rthr s t) = RWIns r1 d1 -> r_pc (rthr s u) = RWIns r2 d2 -> t = u) /\
  (forall t u r1 d1, r_pc (rthr s t) = RWIns r1 d1 ->
     r_pc (rthr s u) <> RRHeld /\ r_pc (rthr s u) <> RRRel).
Proof. exact registry_mutual_exclusion. Qed.
Print Assumptions C19_registry_mutual_exclusion.

Example C19_registry_nonvacuous :
  rreachable ex_rcfg ex_rstate /\
  r_done (rthr ex_rstate 1) =
    [ {| l_pre := [1; 2]; l_seen := [10; 11; 20; 21] |}; {| l_pre := []; l_seen := [10; 11] |} ] /\
  completed ex_rstate = [1; 2].
Proof. exact ex_registry. Qed.

Example C19_reader_blocked_while_writer_inserts :
  exists s, rrun_trace ex_rcfg (firstn 4 ex_rtrace) rinit = Some s /\
            rstep ex_rcfg s 1 RRLock = None.
Proof. exact ex_reader_blocked. Qed.

(* the checker the harness runs on observed first-use executions accepts only
   executions in which every call saw the initialised state *)
Theorem C19_check_observed_sound :
  forall c os s, ireachable c s -> icheck_observed c os s = true ->
  forall t saw, In (t, saw) os -> saw = true.
Proof. exact icheck_observed_sound. Qed.
Print Assumptions C19_check_observed_sound.

Theorem C19_schedules_are_traces :
  forall c sched s s' tr, irun_schedule c sched s [] = Some (s', tr) -> irun_trace c tr s = Some s'.
Proof. exact (fun c sched s s' tr => irun_schedule_trace c sched s [] s s' tr eq_refl). Qed.
Print Assumptions C19_schedules_are_traces.

(* the predicate the harness evaluates on observed registry snapshots ([robs_ok]: own
   completed registrations visible; snapshots pairwise comparable) holds of any two
   lookups of the model *)
Theorem C19_robs_ok_of_model :
  forall c s, rreachable c s ->
  forall t1 t2 k1 k2, In k1 (r_done (rthr s t1)) -> In k2 (r_done (rthr s t2)) ->
  exists C1 C2, l_seen k1 = contents c C1 /\ l_seen k2 = contents c C2 /\
    robs_ok [(l_pre k1, C1); (l_pre k2, C2)] = true.
Proof. exact robs_ok_of_model. Qed.
Print Assumptions C19_robs_ok_of_model.
