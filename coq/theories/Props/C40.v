(* C40 — Code generation is deterministic (category "other": the theorems cover the
   modelled sources of order dependence; that the inventory of such sources is
   complete is not proved — the differential run in separate processes searches
   for what the inventory misses). *)
From Coq Require Import List Bool Permutation Sorted String.
From PB Require Import Base.PBytes Gen.MapRangeSites CodeGen.MapRangeModel CodeGen.MapRangeP
  CodeGen.EmitModel CodeGen.EmitP.
Import ListNotations.
Definition bs (s : string) : list byte := list_byte_of_string s.

(* Every safe loop shape computes the same result for every iteration order
   (every permutation of the map's key list). *)
Theorem C40_safe_shapes_order_invariant :
  (forall K A KS (guard : K -> bool) (f : K -> A) (key : A -> KS) (ltb : KS -> KS -> bool),
     strict_total ltb -> forall o1 o2, Permutation o1 o2 ->
     NoDup (map key (map f (filter guard o1))) ->
     collect_then_sort guard f key ltb o1 = collect_then_sort guard f key ltb o2) /\
  (forall K X (eqb : X -> X -> bool) (guard : K -> bool) (f : K -> X),
     (forall a b, eqb a b = true <-> a = b) -> forall o1 o2, Permutation o1 o2 ->
     forall x, set_mem eqb (insert_into_set guard f o1) x = set_mem eqb (insert_into_set guard f o2) x) /\
  (forall K V (eqb : K -> K -> bool) (guard : K -> bool) (g : K -> V),
     (forall a b, eqb a b = true <-> a = b) -> forall o1 o2, Permutation o1 o2 ->
     forall k, map_lookup eqb (insert_into_map guard g o1) k = map_lookup eqb (insert_into_map guard g o2) k) /\
  (forall K B (op : B -> B -> B) (f : K -> B),
     (forall a b c, op (op a b) c = op (op a c) b) -> forall o1 o2, Permutation o1 o2 ->
     forall init, order_fold op f init o1 = order_fold op f init o2) /\
  (forall K (bad : K -> bool) o1 o2, Permutation o1 o2 ->
     is_some (return_error bad o1) = is_some (return_error bad o2)).
Proof. exact safe_shapes_order_invariant. Qed.
Print Assumptions C40_safe_shapes_order_invariant.
Example C40_shapes_nonvacuous :
  collect_then_sort (fun _ => true) (fun k : nat => k) (fun k => k) Nat.ltb [3; 1; 2] = [1; 2; 3] /\
  order_fold Nat.add (fun k : nat => k) 0 [3; 1; 2] = 6 /\
  return_error (Nat.eqb 1) [3; 1; 2] = Some 1.
Proof. repeat split; reflexivity. Qed.

(* Every `range` over a map in compiler/protogen and cmd/protoc-gen-go/internal_gengo
   (the table Gen/MapRangeSites.v, regenerated from the source on every run) has a
   safe shape and does not range over a pointer-keyed map.
   _partial: (1) one site of shape Other is accepted by name (Options.New /
   importPaths: it only orders the file names inside an error message of
   Options.New, which never reaches the response — see CodeGen/MapRangeModel.v);
   (2) for ReturnError sites only the presence of the error is order invariant,
   not which key its text names; (3) the shape is assigned by a syntactic
   classifier (srcmodel maprange), which is trusted. *)
Theorem C40_all_sites_safe_partial :
  forall s, In s MapRangeSites.sites -> site_ok s = true.
Proof. exact all_sites_safe. Qed.
Print Assumptions C40_all_sites_safe_partial.
Example C40_sites_nonvacuous : MapRangeSites.sites <> [].
Proof. discriminate. Qed.

(* No go statement, select, time, rand, environment access or %p in the two
   packages; the only listed items are declarations of pointer-keyed maps (never
   ranged over, by the previous theorem). *)
Theorem C40_nondet_inventory :
  forall n, In n MapRangeSites.nondet_sources -> nondet_ok n = true.
Proof. exact all_nondet_ok. Qed.
Print Assumptions C40_nondet_inventory.

(* Every call in the two packages that serialises a protobuf message (table
   regenerated from the source on every run) asks for deterministic output, so map
   fields inside descriptor options (custom options re-linked through dynamicpb) are
   written in key order.  _partial: three calls are accepted by name because what
   they serialise has no map field or never leaves the function (CodeGen/MapRangeModel.v);
   that Deterministic: true makes proto.Marshal independent of map order is property C05,
   not re-proved here. *)
Theorem C40_marshal_sites_deterministic_partial :
  forall m, In m MapRangeSites.marshal_sites -> marshal_ok m = true.
Proof. exact all_marshal_sites_ok. Qed.
Print Assumptions C40_marshal_sites_deterministic_partial.
Example C40_marshal_sites_nonvacuous :
  existsb m_deterministic MapRangeSites.marshal_sites = true.
Proof. reflexivity. Qed.

(* The import block of a generated file, after any sequence of QualifiedGoIdent /
   Import calls: strictly increasing import paths (sorted, no duplicates), exactly
   the referenced and the manually imported packages, and the same block whatever
   order Content's two map ranges happen to use. *)
Theorem C40_import_block_sorted_unique :
  forall own ops,
  StronglySorted (fun a b => bytes_ltb (snd a) (snd b) = true) (import_block (run_ops own ops)).
Proof. exact import_block_strictly_sorted. Qed.
Print Assumptions C40_import_block_sorted_unique.
Theorem C40_import_block_order_invariant :
  forall own ops, let g := run_ops own ops in
  forall pk man, Permutation pk (map fst (g_pkgs g)) -> Permutation man (g_manual g) ->
  import_entries g pk man = import_block g.
Proof. exact import_entries_order_invariant. Qed.
Print Assumptions C40_import_block_order_invariant.
Theorem C40_import_block_paths :
  forall own ops p, let g := run_ops own ops in
  In p (map snd (import_block g)) <-> In p (map fst (g_pkgs g)) \/ In p (g_manual g).
Proof. exact import_block_paths. Qed.
Print Assumptions C40_import_block_paths.
Example C40_import_block_nonvacuous :
  map string_of_list_byte
    (import_lines (bs "example.com/own")
       [ OpQualified (bs "b/foo"); OpImport (bs "z/side"); OpQualified (bs "a/foo");
         OpQualified (bs "c/string"); OpQualified (bs "example.com/own"); OpImport (bs "a/foo") ]) =
  [ "foo1 ""a/foo"""; "foo ""b/foo"""; "string1 ""c/string"""; "_ ""z/side""" ]%string.
Proof. vm_compute. reflexivity. Qed.
