(* C34 -- Descriptor protos and file descriptors convert losslessly.
   Statements only; each closed by [exact] of a lemma proved in Desc/ConvertP.v.
   Model: Desc/ConvertModel.v ([new_file] = protodesc.NewFile without validation,
   [to_proto] = protodesc.ToFileDescriptorProto). *)
From Coq Require Import List NArith ZArith Bool.
From PB Require Import Base.PBytes Desc.ConvertModel Desc.ConvertP Desc.ConvertRtP.
Import ListNotations.
Open Scope N_scope.

(* A relative type name resolves to the candidate of the innermost enclosing scope under
   which anything visible is declared (the file's own declarations, or imported ones);
   every scope tried before it has nothing visible under that name. *)
Theorem C34_name_resolution_innermost_first :
  forall tbl env scope ref s k me loc,
    pn_is_full ref = false ->
    find_descriptor tbl env scope ref = LFound s k me loc ->
    exists pre sc post,
      scope_chain (length scope) scope = pre ++ sc :: post /\
      s = fn_append sc ref /\
      visible tbl env s = true /\
      forallb (fun c => negb (visible tbl env (fn_append c ref))) pre = true /\
      (loc = true <-> find_decl tbl s <> None).
Proof. exact resolution_innermost_first. Qed.
Print Assumptions C34_name_resolution_innermost_first.

(* a leading dot switches scoping off *)
Theorem C34_name_resolution_absolute :
  forall tbl env scope ref s k me loc,
    pn_is_full ref = true ->
    find_descriptor tbl env scope ref = LFound s k me loc ->
    s = pn_strip ref /\ visible tbl env s = true.
Proof. exact resolution_absolute. Qed.
Print Assumptions C34_name_resolution_absolute.

(* "not found" / "not imported" are only reported when no scope level has a visible candidate *)
Theorem C34_name_resolution_complete :
  forall tbl env scope ref,
    pn_is_full ref = false -> pn_valid ref = true ->
    (find_descriptor tbl env scope ref = LNotFound \/ find_descriptor tbl env scope ref = LNotImported) ->
    forallb (fun c => negb (visible tbl env (fn_append c ref))) (scope_chain (length scope) scope) = true.
Proof. exact resolution_complete. Qed.
Print Assumptions C34_name_resolution_complete.

(* the scopes tried end at the global scope *)
Theorem C34_scope_chain_ends_global :
  forall fuel scope, (length scope <= fuel)%nat -> last (scope_chain fuel scope) [c_dot] = [].
Proof. exact scope_chain_last. Qed.
Print Assumptions C34_scope_chain_ends_global.

(* makeBase: Name() and Parent() of a child's full name give back the name and the parent *)
Theorem C34_fullname_name :
  forall p n, ident_ok n = true -> fn_name (fn_append p n) = n.
Proof. exact fn_name_append. Qed.
Print Assumptions C34_fullname_name.

Theorem C34_fullname_parent :
  forall p n, ident_ok n = true -> fn_parent (fn_append p n) = p.
Proof. exact fn_parent_append. Qed.
Print Assumptions C34_fullname_parent.

(* ToFileDescriptorProto (NewFile p) is the explicit normal form of p, for every p that
   NewFile accepts (names made absolute, unset type filled in, syntax "proto2"/empty package
   dropped, defaults canonical, ...: see [normalize] in Desc/ConvertModel.v).
   _partial: options and features beyond the six modelled ones are opaque; services by name
   only; no source info; validation (C35) is not part of [new_file]. *)
Theorem C34_to_proto_new_file_partial :
  forall canon env p d, new_file canon env p = Ok d -> to_proto d = normalize canon env p.
Proof. exact to_proto_new_file. Qed.
Print Assumptions C34_to_proto_new_file_partial.

(* NewFile (ToFileDescriptorProto d) = d for every d that NewFile builds from a well-formed
   proto: the whole resolved descriptor is reproduced, hence every accessor computed from it.
   [wf34] (decidable): types are set; an editions file does not use TYPE_GROUP / LABEL_REQUIRED;
   proto3_optional only in proto3; an extension's json_name is the camel-cased name -- all
   guaranteed by protoc and (except the editions spellings, FK4) enforced by desc_validate.go.
   Hypotheses: default canonicalisation is idempotent (C39); the resolver only knows valid full
   names (C33).  _partial as above (opaque options, services by name, no validation stage). *)
Theorem C34_new_file_to_proto_partial :
  forall canon env p d,
    (forall k s, canon k (canon k s) = canon k s) ->
    Forall valr env ->
    wf34 p = true ->
    new_file canon env p = Ok d -> new_file canon env (to_proto d) = Ok d.
Proof. exact new_file_to_proto. Qed.
Print Assumptions C34_new_file_to_proto_partial.

(* ... and NewFile accepts the normal form and builds the same descriptor from it *)
Theorem C34_new_file_normalize_partial :
  forall canon env p d,
    (forall k s, canon k (canon k s) = canon k s) ->
    Forall valr env ->
    wf34 p = true ->
    new_file canon env p = Ok d -> new_file canon env (normalize canon env p) = Ok d.
Proof. exact new_file_normalize. Qed.
Print Assumptions C34_new_file_normalize_partial.

(* [wf34] is needed: the faithful model refutes the unconditional statement (finding FK4) *)
Theorem C34_new_file_to_proto_refuted_without_wf :
  exists p d, new_file idc [] p = Ok d /\ first_field_card (Ok d) = Some 2 /\
              first_field_card (new_file idc [] (to_proto d)) = Some 1.
Proof. exact new_file_to_proto_needs_wf. Qed.
Print Assumptions C34_new_file_to_proto_refuted_without_wf.

(* ---- non-vacuity *)
Definition ex_b (s : list byte) : bytes := s.
Definition ex_tbl : list Decl :=
  [ mkDecl ["a";".";"M"]%byte ["M"]%byte K_MSG false;
    mkDecl ["a";".";"M";".";"M"]%byte ["M"]%byte K_MSG false ].

Example C34_ex_innermost :
  find_descriptor ex_tbl [] ["a";".";"M"]%byte ["M"]%byte = LFound ["a";".";"M";".";"M"]%byte K_MSG false true
  /\ pn_is_full ["M"]%byte = false.
Proof. vm_compute. split; reflexivity. Qed.

Example C34_ex_absolute :
  find_descriptor ex_tbl [] ["a";".";"M"]%byte [".";"a";".";"M"]%byte = LFound ["a";".";"M"]%byte K_MSG false true
  /\ pn_is_full [".";"a";".";"M"]%byte = true.
Proof. vm_compute. split; reflexivity. Qed.

Example C34_ex_complete :
  find_descriptor ex_tbl [] ["a";".";"M"]%byte ["N"]%byte = LNotFound /\ pn_valid ["N"]%byte = true.
Proof. vm_compute. split; reflexivity. Qed.

Example C34_ex_chain : (length ["a";".";"M"]%byte <= 3)%nat.
Proof. cbn. repeat constructor. Qed.

Example C34_ex_ident : ident_ok ["M";"1";"_"]%byte = true.
Proof. reflexivity. Qed.

Example C34_ex_new_file_accepts : is_ok (new_file idc [] ex_file) = true.
Proof. exact ex_file_accepted. Qed.

Example C34_ex_normal_form :
  match normalize idc [] ex_file with
  | mkFileP _ _ _ _ _ _ [mkMsgP _ (f :: _) _ _ _ _ _ _ _ _ _] _ _ _ _ => f_type_name f = Some ex_abs_name
  | _ => False
  end.
Proof. exact ex_file_normal_form. Qed.

Example C34_ex_wf34 : wf34 ex_file = true /\ Forall valr [] /\ (forall k s, idc k (idc k s) = idc k s).
Proof. split; [exact ex_file_wf34|split; [constructor|exact idc_idem]]. Qed.
