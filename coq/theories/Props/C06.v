(* C06 — Binary decoding is total, bounded and agrees with validation.
   Statements only; each closed by [exact] of a lemma proved in Msg/DecTotalP.v or
   Msg/ValidateMsgP.v.

   Models: Msg/MsgDec.v (the merging decoder, table-driven path [slow = false] and reflection
   path [slow = true]; owned by C03) and Msg/ValidateMsgModel.v (the fast-path validator
   internal/impl/validate.go in recursive-descent form, proto.CheckInitialized on decoded
   values, the error class of proto.Unmarshal).  Both are executed against the implementation on
   every run (families msg and dectot).

   What is proved, for every schema table, recursion limit, message type and byte string:
     decode_total            the decoder (either path, into an empty or a populated message)
                             never runs out of fuel -- [DFuel] also stands for the slice-bounds
                             panic of the reflection path's group handling -- and, on a schema
                             table without dangling type indices, never reports [DSchema]
     decode_no_overread      what a message/group tag loop leaves unread is a suffix of its input
     decode_fails_iff_malformed   on the table-driven path: error <-> not well formed, where
                             well formed = accepted by the validator without the FWB4 quirk, i.e.
                             every tag/value parses, lengths fit, groups are balanced and
                             matched, packed payloads split into elements, nesting stays within
                             the limit (map entries cost a level), enforced strings are UTF-8
     validate_valid_sound    Valid (no quirk) -> Unmarshal succeeds
     validate_valid_quirk    Valid with the quirk -> Unmarshal fails with the depth error; this
                             REFUTES the plain statement "Valid -> Unmarshal succeeds" as the
                             code stands (finding FWB4, witness below)
     validate_invalid_sound  Invalid -> Unmarshal fails, for schemas without the FL1 field shape
                             (a repeated string extension with enforced UTF-8); refuted
                             without that hypothesis (witness below)
     validate_total          the validator never runs out of fuel
     validate_stack_eq_recursive   the explicit-stack machine of the Go code = the recursive-descent
                             validator on whole runs (schemas without dangling type indices), so
                             validate_* hold of the machine: validate_stack_total / _valid_sound_or_FWB4
                             / _invalid_sound_except_FL1 / _initialized_sound
   _partial / not covered: ValidationUnknown (aberrant message types, resolver failures) and the
   MessageSet item branch (build tag protolegacy) are outside the schema-table model;
   and [ValidationWrongWireType] (only returned by skipField, modelled in Msg/LazyModel.v).
     validate_initialized_sound   Valid with the initialized flag set, and the decoder returns v
                             -> CheckInitialized v succeeds: the validator never reports a
                             partial message as initialized (schemas with unique field numbers
                             whose required fields are not oneof members and whose map values
                             are not groups -- true of every descriptor protodesc accepts) *)
From Coq Require Import List NArith ZArith Bool.
From PB Require Import Base.PBytes Wire.WireModel.
From PB Require Import Msg.MsgSchema Msg.MsgValue Msg.MsgEnc Msg.MsgDec Msg.MsgExample.
From PB Require Import Msg.ValidateMsgModel Msg.ValidateMsgP Msg.DecTotalP Msg.InitSoundP Msg.ValidateStackP.
From PB Require Import Msg.ValidateStackRunP.
Import ListNotations.
Open Scope N_scope.

Theorem C06_decode_total :
  forall (slow : bool) (S : schema) (limit tid : nat) (bs : list byte) (old : value),
    dt_schema_wf S -> nth_error S tid <> None ->
    msg_decode_into slow S limit tid bs old <> DErr DFuel /\
    msg_decode_into slow S limit tid bs old <> DErr DSchema.
Proof. exact dt_decode_total. Qed.
Print Assumptions C06_decode_total.

Theorem C06_decode_never_out_of_fuel :
  forall (slow : bool) (S : schema) (limit tid : nat) (bs : list byte) (old : value),
    msg_decode_into slow S limit tid bs old <> DErr DFuel.
Proof. exact dt_decode_never_fuel. Qed.
Print Assumptions C06_decode_never_out_of_fuel.

Theorem C06_decode_no_overread :
  forall (slow : bool) (S : schema) (dep tid : nat) (grp : N) (bs : list byte)
         (acc m : msg_macc) (r : list byte),
    msg_decode_msg slow S dep tid grp (x00 :: bs) bs acc = DOk (m, r) ->
    exists consumed, bs = consumed ++ r.
Proof. exact dt_no_overread. Qed.
Print Assumptions C06_decode_no_overread.

Theorem C06_decode_fails_iff_malformed :
  forall (S : schema) (limit tid : nat) (bs : list byte),
    vp_fl1_free S ->
    ((exists e, msg_decode false S limit tid bs = DErr e) <-> vp_wellformed S limit tid bs = false).
Proof. exact vp_fails_iff. Qed.
Print Assumptions C06_decode_fails_iff_malformed.

Theorem C06_validate_total :
  forall (S : schema) (limit tid : nat) (bs : list byte),
    fst (fst (vm_validate S limit tid bs)) <> 0.
Proof. exact vp_validate_total. Qed.
Print Assumptions C06_validate_total.

Theorem C06_validate_valid_sound_except_FWB4 :
  forall (S : schema) (limit tid : nat) (bs : list byte) (initialized : bool),
    vm_validate S limit tid bs = (3, initialized, false) ->
    exists v, msg_decode false S limit tid bs = DOk v.
Proof. exact vp_valid_sound. Qed.
Print Assumptions C06_validate_valid_sound_except_FWB4.

Theorem C06_validate_valid_quirk :
  forall (S : schema) (limit tid : nat) (bs : list byte) (initialized : bool),
    vm_validate S limit tid bs = (3, initialized, true) ->
    msg_decode false S limit tid bs = DErr DDepth.
Proof. exact vp_valid_quirk. Qed.
Print Assumptions C06_validate_valid_quirk.

Theorem C06_validate_invalid_sound_except_FL1 :
  forall (S : schema) (limit tid : nat) (bs : list byte),
    vp_fl1_free S -> fst (fst (vm_validate S limit tid bs)) = 2 ->
    exists e, msg_decode false S limit tid bs = DErr e.
Proof. exact vp_invalid_sound. Qed.
Print Assumptions C06_validate_invalid_sound_except_FL1.

Theorem C06_validate_initialized_sound :
  forall (S : schema) (limit tid : nat) (bs : list byte) (quirk : bool) (v : value),
    is_schema_ok S ->
    vm_validate S limit tid bs = (3, true, quirk) ->
    msg_decode false S limit tid bs = DOk v ->
    msg_check_init S tid v = true.
Proof. exact is_validate_initialized_sound. Qed.
Print Assumptions C06_validate_initialized_sound.

(* The explicit-stack state machine of MessageInfo.validate ([vm_run] / [vm_validate_stack]: a stack of
   states with endGroup / tail / requiredMask, depth -- on push and ++ on pop, the one/two-byte
   fast paths for tags and lengths, the unrolled varint skip, fuel 2|b|+2) computes, on WHOLE RUNS,
   exactly what the recursive-descent validator computes about which the theorems above are
   proved: same status (Valid / Invalid, never out of fuel) and same [initialized] output, for
   every schema table without dangling type indices, every recursion limit, message type and
   input.  Proof (Msg/ValidateStackRunP.v): induction on the depth budget and the input with the
   stack invariant "a frame = a pending call of the recursive form" (push = call, pop = return;
   the frame's requiredMask is the recursive loop's list of required numbers seen, a map-entry
   frame's bit 2 is its value-seen flag), and the step count n + 2|rest| <= 2|b| + 1 per frame
   that justifies the fuel of the Go-shaped loop.
   The hypothesis [dt_schema_wf] (every message/group-typed field names an existing table; its
   boolean form [dt_schema_wfb] is evaluated on every schema of every `val` case of the run,
   ocaml/fam_dectot.ml, and a table that fails it fails the case) is needed by the MODEL only: on a dangling
   index the recursive form fails ([nth_error]) while the machine reads an empty table ([nth]);
   [C06_validate_stack_eq_recursive_needs_wf] is that witness.  The quirk flag (FWB4) is an
   output of the recursive form only; the machine has no such output. *)
Theorem C06_validate_stack_eq_recursive :
  forall (S : schema) (limit tid : nat) (bs : list byte),
    dt_schema_wf S ->
    vm_validate_stack S limit tid bs =
    (fst (fst (vm_validate S limit tid bs)), snd (fst (vm_validate S limit tid bs))).
Proof. exact vs_stack_eq_recursive. Qed.
Print Assumptions C06_validate_stack_eq_recursive.

Theorem C06_validate_stack_eq_recursive_needs_wf :
  exists (S : schema) (limit tid : nat) (bs : list byte),
    vm_validate_stack S limit tid bs <>
    (fst (fst (vm_validate S limit tid bs)), snd (fst (vm_validate S limit tid bs))).
Proof. exact vs_stack_neq_dangling. Qed.
Print Assumptions C06_validate_stack_eq_recursive_needs_wf.

(* hence the properties of the recursive form are properties of the machine *)
Theorem C06_validate_stack_total :
  forall (S : schema) (limit tid : nat) (bs : list byte),
    dt_schema_wf S -> fst (vm_validate_stack S limit tid bs) <> 0.
Proof. exact vs_stack_total. Qed.
Print Assumptions C06_validate_stack_total.

Theorem C06_validate_stack_valid_sound_or_FWB4 :
  forall (S : schema) (limit tid : nat) (bs : list byte) (initialized : bool),
    dt_schema_wf S -> vm_validate_stack S limit tid bs = (3, initialized) ->
    (exists v, msg_decode false S limit tid bs = DOk v) \/ msg_decode false S limit tid bs = DErr DDepth.
Proof. exact vs_stack_valid_cases. Qed.
Print Assumptions C06_validate_stack_valid_sound_or_FWB4.

Theorem C06_validate_stack_invalid_sound_except_FL1 :
  forall (S : schema) (limit tid : nat) (bs : list byte),
    dt_schema_wf S -> vp_fl1_free S -> fst (vm_validate_stack S limit tid bs) = 2 ->
    exists e, msg_decode false S limit tid bs = DErr e.
Proof. exact vs_stack_invalid_sound. Qed.
Print Assumptions C06_validate_stack_invalid_sound_except_FL1.

Theorem C06_validate_stack_initialized_sound :
  forall (S : schema) (limit tid : nat) (bs : list byte) (v : value),
    dt_schema_wf S -> is_schema_ok S ->
    vm_validate_stack S limit tid bs = (3, true) ->
    msg_decode false S limit tid bs = DOk v ->
    msg_check_init S tid v = true.
Proof. exact vs_stack_initialized_sound. Qed.
Print Assumptions C06_validate_stack_initialized_sound.

(* the per-field step of that proof, kept as a statement of its own: the action the machine takes
   for one field of a message/group state (skip, push a state, fail) is the recursive step
   [vr_step]; its fast paths are protowire.ConsumeVarint.  (Formerly
   C06_validate_stack_field_eq_recursive_partial, when the induction over runs was open.) *)
Theorem C06_validate_stack_field_eq_recursive :
  forall (reqof : nat -> bool) (md : mdesc) (vsub : vr_t) (vsub2 : option vr_t) (num typ : N) (r : list byte),
    vs_step_rel reqof md vsub vsub2 num typ r
                (vm_field_action (vs_vt_of md num) num typ r) (vr_step reqof md vsub vsub2 num typ r).
Proof. exact vs_step_action. Qed.
Print Assumptions C06_validate_stack_field_eq_recursive.

Theorem C06_validate_stack_fastpaths :
  forall b : list byte,
    vm_fast_varint b = match dec_varint b with Ok (v, r) => Some (v, r) | Err _ => None end /\
    vm_skip_varint b = match dec_varint b with Ok (_, r) => Some r | Err _ => None end.
Proof. exact (fun b => conj (vs_fast_varint b) (vs_skip_varint b)). Qed.
Print Assumptions C06_validate_stack_fastpaths.

(* ---------- refutations of the unrestricted statements (findings) ---------- *)
(* FWB4: a map field occurring as VARINT at recursion limit 1: Valid, but Unmarshal fails *)
Definition C06_map_schema : schema :=
  [[mkF 1 (KS SkInt32) (CMap SkInt32 false 0) None false false false]].
Theorem C06_validate_valid_sound_refuted :
  exists (S : schema) (limit tid : nat) (bs : list byte),
    fst (fst (vm_validate S limit tid bs)) = 3 /\ msg_decode false S limit tid bs = DErr DDepth.
Proof. exists C06_map_schema, 1%nat, 0%nat, [x08; x00]. vm_compute. split; reflexivity. Qed.
Print Assumptions C06_validate_valid_sound_refuted.

(* FL1: a repeated string extension with enforced UTF-8 holding 0xff: Invalid, Unmarshal succeeds *)
Definition C06_fl1_schema : schema :=
  [[mkF 1 (KS SkString) CRep None true true false]].
Theorem C06_validate_invalid_sound_refuted :
  exists (S : schema) (limit tid : nat) (bs : list byte) (v : value),
    fst (fst (vm_validate S limit tid bs)) = 2 /\ msg_decode false S limit tid bs = DOk v.
Proof.
  exists C06_fl1_schema, 5%nat, 0%nat, [x0a; x01; xff], (VMsg [(1, [VS (SBy [xff])])] []).
  vm_compute. split; reflexivity.
Qed.
Print Assumptions C06_validate_invalid_sound_refuted.

(* ---------- non-vacuity ---------- *)
Example C06_example_schema_wf : dt_schema_wf ex_schema /\ vp_fl1_free ex_schema /\ nth_error ex_schema 0 <> None.
Proof.
  split; [apply dt_schema_wfb_spec; vm_compute; reflexivity|].
  split; [apply vp_fl1_freeb_spec; vm_compute; reflexivity|discriminate].
Qed.
(* the example message is Valid and initialized at limit 3, Invalid at limit 2 (depth) *)
Example C06_example_validate :
  vm_validate ex_schema 3 0 (msg_encode ex_schema 0 ex_msg) = (3, true, false) /\
  vm_validate ex_schema 2 0 (msg_encode ex_schema 0 ex_msg) = (2, false, false) /\
  vp_wellformed ex_schema 3 0 (msg_encode ex_schema 0 ex_msg) = true.
Proof. vm_compute. repeat split; reflexivity. Qed.
(* truncating it makes it Invalid, and the decoder fails with a parse error *)
Example C06_example_truncated :
  fst (fst (vm_validate ex_schema 3 0 (firstn 20 (msg_encode ex_schema 0 ex_msg)))) = 2 /\
  msg_decode false ex_schema 3 0 (firstn 20 (msg_encode ex_schema 0 ex_msg)) = DErr DParse.
Proof. vm_compute. split; reflexivity. Qed.
(* the quirk hypothesis is satisfiable: the FWB4 witness is Valid with the quirk flag *)
Example C06_example_quirk : vm_validate C06_map_schema 1 0 [x08; x00] = (3, true, true).
Proof. vm_compute. reflexivity. Qed.
(* the hypotheses of validate_initialized_sound hold of the example: the schema is regular, the
   validator reports initialized, the decoder returns a value, and CheckInitialized accepts it *)
Example C06_example_initialized :
  is_schema_ok ex_schema /\
  vm_validate ex_schema 3 0 (msg_encode ex_schema 0 ex_msg) = (3, true, false) /\
  msg_decode false ex_schema 3 0 (msg_encode ex_schema 0 ex_msg) = DOk ex_msg /\
  msg_check_init ex_schema 0 ex_msg = true.
Proof. split; [apply is_schema_okb_spec; vm_compute; reflexivity|]. vm_compute. repeat split; reflexivity. Qed.
(* a message without its required field 10 is Valid but not initialized *)
Example C06_example_partial : vm_validate ex_schema 3 0 [x08; x01] = (3, false, false).
Proof. vm_compute. reflexivity. Qed.
(* the hypotheses of the stack-machine theorems hold of the example schema, and the machine gives
   the recursive form's verdicts on the example inputs (Valid+initialized, Invalid by depth,
   Valid+partial) *)
Example C06_example_stack :
  dt_schema_wf ex_schema /\ is_schema_ok ex_schema /\
  vm_validate_stack ex_schema 3 0 (msg_encode ex_schema 0 ex_msg) = (3, true) /\
  vm_validate_stack ex_schema 2 0 (msg_encode ex_schema 0 ex_msg) = (2, false) /\
  vm_validate_stack ex_schema 3 0 [x08; x01] = (3, false).
Proof.
  split; [apply dt_schema_wfb_spec; vm_compute; reflexivity|].
  split; [apply is_schema_okb_spec; vm_compute; reflexivity|].
  vm_compute. repeat split; reflexivity.
Qed.
