(* C21 — protojson speaks exactly JSON.
   Statements only; each closed by [exact] of a lemma proved in Json/*P.v.

   Specification side (Json/JsonGrammar.v, Json/JsonUtf8.v): [json_text] is RFC 8259 as an
   inductive grammar over bytes (strings are RFC 3629 UTF-8), [rfc_number], [rfc_string] its
   number and string productions; [strip_number] / [is_json] are executable recognisers.
   Code side: Json/JsonLexModel.v (Decoder), Json/JsonNumModel.v (parseNumber),
   Json/JsonEncModel.v (Encoder). *)
From Coq Require Import List NArith ZArith.
From PB Require Import Base.PBytes Json.JsonUtf8 Json.JsonGrammar Json.JsonNumModel Json.JsonNumP
  Json.JsonLexModel Json.JsonStrP Json.JsonLexP Json.JsonEncModel Json.JsonEncP Json.JsonEncSpec
  Json.JsonEncGrammarP Json.JsonGrammarP Json.JsonStrict Json.JsonLexCompleteP Json.JsonGrammarCompleteP Json.JsonLexExactP.
Import ListNotations.

(* If reading tokens to EOF succeeds (and at least one token was read) the input is a JSON
   text.  With F2 repaired this is the full theorem for numbers, strings and structure. *)
Theorem C21_lexer_accepts_only_json :
  forall input toks, read_all input = (toks, None) -> toks <> [] -> json_text input.
Proof. exact lexer_accepts_only_json. Qed.
Print Assumptions C21_lexer_accepts_only_json.

(* The side condition [toks <> []] is necessary for the code as it stands: in Decoder.Read the
   EOF test `d.lastToken.kind&scalar|ObjectClose|ArrayClose == 0` parses as
   `((kind&scalar)|ObjectClose|ArrayClose) == 0`, which is constantly false, so blank input is
   read as EOF without error.  (protojson.Unmarshal is not affected: it requires '{' first.) *)
Theorem C21_lexer_blank_input_reads_eof :
  exists input, read_all input = ([], None) /\ ~ json_text input.
Proof. exact lexer_blank_input_reads_eof. Qed.
Print Assumptions C21_lexer_blank_input_reads_eof.

(* parseNumber is exactly the RFC 8259 number recogniser followed by the delimiter rule *)
Theorem C21_parse_number_is_rfc_number :
  forall input, parse_number input =
    match strip_number input with
    | Some r => if delim_or_end r then Some (length input - length r)%nat else None
    | None => None
    end.
Proof. exact parse_number_strip. Qed.
Print Assumptions C21_parse_number_is_rfc_number.

Theorem C21_parse_number_sound :
  forall input n, parse_number input = Some n ->
    rfc_number (firstn n input) /\ delim_or_end (skipn n input) = true /\ (0 < n <= length input)%nat.
Proof. exact parse_number_sound. Qed.
Print Assumptions C21_parse_number_sound.

Theorem C21_parse_number_complete :
  forall num r, rfc_number num -> delim_or_end r = true -> parse_number (num ++ r) = Some (length num).
Proof. exact parse_number_complete. Qed.
Print Assumptions C21_parse_number_complete.

(* the executable number recogniser and the inductive grammar coincide *)
Theorem C21_is_rfc_number_iff : forall s, is_rfc_number s = true <-> rfc_number s.
Proof. exact is_rfc_number_iff. Qed.
Print Assumptions C21_is_rfc_number_iff.

(* The executable recogniser of whole documents (the one the harness compares with
   encoding/json.Valid && utf8.Valid on every generated document) and the inductive grammar
   coincide. *)
Theorem C21_is_json_sound : forall s, is_json s = true -> json_text s.
Proof. exact is_json_sound. Qed.
Print Assumptions C21_is_json_sound.

Theorem C21_is_json_iff : forall s, is_json s = true <-> json_text s.
Proof. exact is_json_iff. Qed.
Print Assumptions C21_is_json_iff.

(* parseString accepts only RFC 8259 strings (escapes, \u with surrogate pairs, UTF-8) *)
Theorem C21_parse_string_sound :
  forall pos inp s n, parse_string_at pos inp = Ok (s, n) ->
    rfc_string (firstn n inp) /\ (2 <= n <= length inp)%nat /\
    exists body, firstn n inp = c_quote :: body ++ [c_quote].
Proof. exact parse_string_at_sound. Qed.
Print Assumptions C21_parse_string_sound.

(* appendString followed by parseString is the identity on every string the encoder accepts *)
Theorem C21_string_escape_roundtrip :
  forall s out rest pos, append_string s = (out, true) ->
    parse_string_at pos (out ++ rest) = Ok (s, length out).
Proof. exact string_escape_roundtrip. Qed.
Print Assumptions C21_string_escape_roundtrip.

(* Every tree written through the Encoder calls (WriteNull/Bool/String/Int/Uint, StartObject/
   WriteName/EndObject, StartArray/EndArray in the balanced order [calls_of_tree]) renders a
   JSON text, for every indent made of spaces/tabs and every detrand stream.  [tree_ok] says
   that all strings and names are valid UTF-8 (WriteString/WriteName succeed). *)
Theorem C21_encoder_emits_json :
  forall rnd indent t, indent_ok indent = true -> tree_ok t ->
    exists out, render rnd indent t = (out, true) /\ json_text out.
Proof. exact encoder_emits_json. Qed.
Print Assumptions C21_encoder_emits_json.

(* Decoder completeness.  [stext s ks] (Json/JsonStrict.v) is RFC 8259 with the one side condition
   the code has: a \u escape that denotes a UTF-16 surrogate must be a high surrogate
   (D800..DBFF) immediately followed by the \u escape of a low surrogate (DC00..DFFF); the
   grammar is indexed by the tokens [ks] (kind, raw bytes, bool, decoded string) of the
   derivation.  Every such text is read to EOF, yielding exactly those tokens. *)
Theorem C21_lexer_accepts_all_strict_json :
  forall s ks, stext s ks ->
    exists toks, read_all s = (toks, None) /\ map atok_of toks = ks /\ toks <> [].
Proof. exact lexer_accepts_all_strict_json. Qed.
Print Assumptions C21_lexer_accepts_all_strict_json.

Theorem C21_strict_json_is_json : forall s ks, stext s ks -> json_text s.
Proof. exact stext_json_text. Qed.
Print Assumptions C21_strict_json_is_json.

(* On the domain of inputs whose readings as a JSON text have no unpaired surrogate escapes,
   the Decoder accepts exactly the JSON texts. *)
Theorem C21_lexer_accepts_iff_json :
  forall s, (json_text s -> exists ks, stext s ks) ->
    ((exists toks, read_all s = (toks, None) /\ toks <> []) <-> json_text s).
Proof. exact lexer_accepts_iff_json. Qed.
Print Assumptions C21_lexer_accepts_iff_json.

(* The Decoder's language exactly (no domain restriction): an input is read to EOF, with at
   least one token, iff it is a strict JSON text; and the tokens read are those of the
   derivation.  (The soundness half replays the simulation argument for the strict grammar,
   Json/JsonLexStrictP.v.) *)
Theorem C21_lexer_accepts_exactly_strict_json :
  forall s, (exists toks, read_all s = (toks, None) /\ toks <> []) <-> (exists ks, stext s ks).
Proof. exact lexer_accepts_exactly_strict_json. Qed.
Print Assumptions C21_lexer_accepts_exactly_strict_json.

Theorem C21_lexer_tokens_are_derivation :
  forall s toks, read_all s = (toks, None) -> toks <> [] -> stext s (map atok_of toks).
Proof. exact lexer_tokens_are_derivation. Qed.
Print Assumptions C21_lexer_tokens_are_derivation.

(* indent_invariant, full statement: every rendering (any indent of spaces/tabs, any detrand
   stream) is read back by the Decoder to EOF as the token sequence of the tree, hence parses
   to the same token/value sequence as the compact rendering. *)
Theorem C21_indent_invariant :
  forall rnd1 rnd2 indent1 indent2 t,
    indent_ok indent1 = true -> indent_ok indent2 = true -> tree_ok t ->
    snd (read_all (fst (render rnd1 indent1 t))) = None /\ snd (read_all (fst (render rnd2 indent2 t))) = None /\
    map atok_of (fst (read_all (fst (render rnd1 indent1 t)))) = map atok_of (fst (read_all (fst (render rnd2 indent2 t)))) /\
    map atok_of (fst (read_all (fst (render rnd1 indent1 t)))) = tree_toks t.
Proof. exact indent_invariant_tokens. Qed.
Print Assumptions C21_indent_invariant.

(* ... and, independently of the Decoder, indent and detrand only change insignificant
   whitespace: after deleting the whitespace outside string literals ([squeeze SqOut],
   Json/JsonEncSpec.v) every rendering equals the canonical compact rendering [compact t]. *)
Theorem C21_indent_invariant_modulo_ws :
  forall rnd1 rnd2 indent1 indent2 t,
    indent_ok indent1 = true -> indent_ok indent2 = true -> tree_ok t ->
    squeeze SqOut (fst (render rnd1 indent1 t)) = squeeze SqOut (fst (render rnd2 indent2 t)) /\
    squeeze SqOut (fst (render rnd1 indent1 t)) = compact t.
Proof. exact indent_invariant. Qed.
Print Assumptions C21_indent_invariant_modulo_ws.

(* Read's recursion after a comma is at most one level deep (justifies the shape of [read]) *)
Theorem C21_read_step_after_comma :
  forall st tok st', d_last st = KComma -> read_step st = Ok (tok, st') -> t_kind tok <> KComma.
Proof. exact read_step_after_comma. Qed.
Print Assumptions C21_read_step_after_comma.

(* non-vacuity *)
Definition C21_doc : list byte := ["{"; x22; "a"; x22; ":"; "["; "1"; "e"; "5"; ","; " "; "t"; "r"; "u"; "e"; "]"; "}"]%byte.
Example C21_ex_reads : snd (read_all C21_doc) = None /\ length (fst (read_all C21_doc)) = 7%nat.
Proof. vm_compute. split; reflexivity. Qed.
Example C21_ex_F2_rejected :
  snd (read_all ["["; "1"; "e"; ","; "2"; "]"]%byte) <> None /\ parse_number ["1"; "e"; ","]%byte = None.
Proof. vm_compute. split; [discriminate|reflexivity]. Qed.
Definition C21_tree : jtree :=
  TObj [(["a"]%byte, TArr [TInt 1; TStr [x22; " "]%byte; TNull]); (["b"]%byte, TObj [])].
Example C21_ex_render :
  tree_ok C21_tree /\
  fst (render (fun _ => true) [" "; " "]%byte C21_tree) <> fst (render (fun _ => false) [] C21_tree) /\
  squeeze SqOut (fst (render (fun _ => true) [" "; " "]%byte C21_tree)) = fst (render (fun _ => false) [] C21_tree).
Proof. vm_compute. repeat split; auto; discriminate. Qed.
Example C21_ex_escape :
  append_string [x22; x0a; x01; "a"]%byte = ([x22; x5c; x22; x5c; "n"; x5c; "u"; "0"; "0"; "0"; "1"; "a"; x22]%byte, true).
Proof. vm_compute. reflexivity. Qed.
Example C21_ex_number_complete :
  rfc_number ["-"; "1"; "."; "5"; "e"; "+"; "3"]%byte /\
  parse_number ["-"; "1"; "."; "5"; "e"; "+"; "3"; "]"]%byte = Some 7%nat /\
  parse_number ["-"; "1"; "."; "5"; "e"; "+"; "3"; "x"]%byte = None.
Proof. split; [apply is_rfc_number_iff; vm_compute; reflexivity|vm_compute; split; reflexivity]. Qed.
Example C21_ex_is_json :
  is_json C21_doc = true /\ is_json ["["; "1"; ","; "]"]%byte = false /\ is_json [] = false.
Proof. vm_compute. repeat split. Qed.
Example C21_ex_render_reads :
  map atok_of (fst (read_all (fst (render (fun _ => true) [" "; " "]%byte C21_tree)))) = tree_toks C21_tree /\
  length (tree_toks C21_tree) = 11%nat.
Proof. vm_compute. split; reflexivity. Qed.

(* ---- Tier T: the same statements about the Go source itself ----
   Gen/JsonNumGo.v is regenerated from internal/encoding/json/decode_number.go (+ isNotDelim
   of decode.go) by srcmodel_jsonnum on every check; bytes are list Z (zbytes), ints are Z with
   explicit int64 wraps, index/slice expressions are checked (Panic), loops run on fuel (Fuel).
   Domain: inputs shorter than 2^63 bytes (max_len), i.e. every Go slice. *)
From PB Require Import Base.GoInt Gen.JsonNumGo Json.JsonNumGoP.

Theorem C21_go_isNotDelim_eq_model :
  forall b, go_isNotDelim (zb b) = is_not_delim b.
Proof. exact go_isNotDelim_eq_model. Qed.
Print Assumptions C21_go_isNotDelim_eq_model.

(* the translated parseNumber computes the hand model; in particular no Panic, no Fuel *)
Theorem C21_go_parseNumber_eq_model :
  forall input, (Z.of_nat (length input) < max_len)%Z ->
    go_parseNumber (zbytes input) = Val (zres (parse_number input)).
Proof. exact go_parseNumber_eq_model. Qed.
Print Assumptions C21_go_parseNumber_eq_model.

(* the translated source is exactly the RFC 8259 number recogniser followed by the delimiter
   rule, and returns the length of the number *)
Theorem C21_go_parseNumber_is_rfc_number :
  forall input, (Z.of_nat (length input) < max_len)%Z ->
    go_parseNumber (zbytes input) =
    Val (match strip_number input with
         | Some r => if delim_or_end r then (Z.of_nat (length input - length r), true) else (0%Z, false)
         | None => (0%Z, false)
         end).
Proof. exact go_parseNumber_is_rfc_number. Qed.
Print Assumptions C21_go_parseNumber_is_rfc_number.

Theorem C21_go_parseNumber_sound :
  forall input n, (Z.of_nat (length input) < max_len)%Z ->
    go_parseNumber (zbytes input) = Val (n, true) ->
    rfc_number (firstn (Z.to_nat n) input) /\ delim_or_end (skipn (Z.to_nat n) input) = true /\
    (0 < n <= Z.of_nat (length input))%Z.
Proof. exact go_parseNumber_sound. Qed.
Print Assumptions C21_go_parseNumber_sound.

Theorem C21_go_parseNumber_complete :
  forall num r, (Z.of_nat (length (num ++ r)) < max_len)%Z ->
    rfc_number num -> delim_or_end r = true ->
    go_parseNumber (zbytes (num ++ r)) = Val (Z.of_nat (length num), true).
Proof. exact go_parseNumber_complete. Qed.
Print Assumptions C21_go_parseNumber_complete.

Example C21_ex_go_parseNumber :
  go_parseNumber (zbytes ["-"; "1"; "."; "5"; "e"; "+"; "3"; "]"]%byte) = Val (7%Z, true) /\
  go_parseNumber (zbytes ["1"; "e"; ","]%byte) = Val (0%Z, false) /\
  go_parseNumber (zbytes ["0"; "1"]%byte) = Val (0%Z, false).
Proof. vm_compute. repeat split. Qed.
