(* C21 placeholder; theorems follow *)
From PB Require Import Json.JsonLexModel.
