(* C14 -- placeholder while the model is being built (replaced by the real statements). *)
From Coq Require Import List.
