(* C14 — decoded and cloned messages never alias caller memory.
   Statements only; each closed by [exact] of a lemma of Msg/AliasP.v.

   Level: proof over a PROVENANCE MODEL (Msg/AliasModel.v), hence every theorem carries the
   suffix _partial: the model records, for every byte region reachable from a message, whether
   it is storage the message owns or a view of memory the caller can still write (the input
   buffer, another message), with the copy decisions of the code (consumeBytes*:
   append(emptyBuf[:], v...); unknown fields appended to the message's own slice; lazy.go:
   append([]byte{}, b...) unless UnmarshalAliasBuffer, nested calls then alias the private copy;
   cloneBytes / mergeBytes; protodelim: Peek then Unmarshal without the alias flag).
   What is NOT proved: that the Go code copies where the model says -- real memory is runtime.
   That tie is behavioural: harness family "alias" overwrites the entire input buffer, mutates
   sources and clones, forces lazy fields afterwards, on every flavour. *)
From Coq Require Import List NArith Bool.
From PB Require Import Base.PBytes Msg.AliasModel Msg.AliasP.
Import ListNotations.

(* no view of caller memory is reachable from a decoded message unless the (internal) alias flag is set *)
Theorem C14_decode_fresh_partial :
  forall (lazyon : bool) (buf : nat) (ext : extmem) (items : list litem),
    node_fresh (alias_decode false lazyon buf ext items) = true.
Proof. exact decode_fresh. Qed.
Print Assumptions C14_decode_fresh_partial.

Theorem C14_clone_fresh_partial :
  forall (ext : extmem) (n : anode), node_fresh (alias_clone ext n) = true.
Proof. exact clone_fresh. Qed.
Print Assumptions C14_clone_fresh_partial.

(* the clone keeps the contents the source had at the time of Clone *)
Theorem C14_clone_keeps_contents_partial :
  forall (ext ext' : extmem) (n : anode), alias_obs ext' (alias_clone ext n) = alias_obs ext n.
Proof. exact clone_obs. Qed.
Print Assumptions C14_clone_keeps_contents_partial.

Theorem C14_merge_dst_fresh_partial :
  forall (ext : extmem) (dst src : anode),
    node_fresh dst = true -> node_fresh (alias_merge ext dst src) = true.
Proof. exact merge_dst_fresh. Qed.
Print Assumptions C14_merge_dst_fresh_partial.

Theorem C14_delim_fresh_partial :
  forall (lazyon : bool) (rbuf : nat) (ext : extmem) (items : list litem),
    node_fresh (alias_delim_read lazyon rbuf ext items) = true.
Proof. exact delim_fresh. Qed.
Print Assumptions C14_delim_fresh_partial.

(* freshness is exactly what makes observations independent of later writes *)
Theorem C14_fresh_is_independent_partial :
  forall (e1 e2 : extmem) (n : anode), node_fresh n = true -> alias_obs e1 n = alias_obs e2 n.
Proof. exact obs_fresh_indep. Qed.
Print Assumptions C14_fresh_is_independent_partial.

(* any later write to the input buffer / the source / the reader's buffer: nothing changes *)
Theorem C14_mutation_independent_decode_partial :
  forall (lazyon : bool) (buf : nat) (ext ext' : extmem) (items : list litem),
    alias_obs ext' (alias_decode false lazyon buf ext items) = alias_obs ext (alias_decode false lazyon buf ext items).
Proof. exact mutation_independent_decode. Qed.
Print Assumptions C14_mutation_independent_decode_partial.

Theorem C14_mutation_independent_clone_partial :
  forall (ext ext' : extmem) (n : anode),
    alias_obs ext' (alias_clone ext n) = alias_obs ext (alias_clone ext n).
Proof. exact mutation_independent_clone. Qed.
Print Assumptions C14_mutation_independent_clone_partial.

Theorem C14_mutation_independent_merge_partial :
  forall (ext ext' : extmem) (dst src : anode),
    node_fresh dst = true ->
    alias_obs ext' (alias_merge ext dst src) = alias_obs ext (alias_merge ext dst src).
Proof. exact mutation_independent_merge. Qed.
Print Assumptions C14_mutation_independent_merge_partial.

Theorem C14_mutation_independent_delim_partial :
  forall (lazyon : bool) (rbuf : nat) (ext ext' : extmem) (items : list litem),
    alias_obs ext' (alias_delim_read lazyon rbuf ext items) = alias_obs ext (alias_delim_read lazyon rbuf ext items).
Proof. exact mutation_independent_delim. Qed.
Print Assumptions C14_mutation_independent_delim_partial.

(* the flag matters (non-vacuity of the model): with UnmarshalAliasBuffer a lazily retained
   field views the input, and overwriting the input changes what the message reads *)
Theorem C14_alias_flag_views_input :
  node_fresh (alias_decode true true 0 (alias_ex_mem [x0a; x0b; x0c; x0d; x0e; x0f]) alias_ex_items) = false /\
  alias_obs (alias_ex_mem [x00; x00; x00; x00; x00; x00])
            (alias_decode true true 0 (alias_ex_mem [x0a; x0b; x0c; x0d; x0e; x0f]) alias_ex_items) <>
  alias_obs (alias_ex_mem [x0a; x0b; x0c; x0d; x0e; x0f])
            (alias_decode true true 0 (alias_ex_mem [x0a; x0b; x0c; x0d; x0e; x0f]) alias_ex_items).
Proof. exact alias_flag_views_input. Qed.
Print Assumptions C14_alias_flag_views_input.

(* non-vacuity of the hypothesis of the merge theorems, and a lazily decoded example *)
Example C14_example_lazy_decode_owns_its_copy :
  alias_decode false true 0 (alias_ex_mem [x0a; x0b; x0c; x0d; x0e; x0f]) alias_ex_items =
  NMsg 0 [NBytes 1 (ROwn [x0a; x0b]); NLazy 2 (ROwn [x0c; x0d; x0e])] (ROwn [x0f]).
Proof. vm_compute. reflexivity. Qed.
Example C14_example_merge_hyp :
  node_fresh (alias_decode false true 0 (alias_ex_mem [x0a; x0b; x0c; x0d; x0e; x0f]) alias_ex_items) = true.
Proof. vm_compute. reflexivity. Qed.
