(* C23 placeholder: filled in below *)
From PB Require Import Known.WktJsonModel.
