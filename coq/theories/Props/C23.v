(* C23 — Well-known types use their JSON forms exactly (Duration, Timestamp, FieldMask parts).
   Statements only; each closed by [exact] of a lemma of Known/DurJsonP.v, Known/FmJsonP.v,
   Known/TsJsonP.v, Known/CivilP.v.  Strings are byte lists (the content of the JSON string). *)
From Coq Require Import List NArith ZArith Bool.
From Coq Require Strings.String.
Import Coq.Strings.String.StringSyntax.
Delimit Scope string_scope with string.
From PB Require Import Base.PBytes Known.FieldMaskModel Known.DurationModel Known.TimestampModel
  Known.WktJsonModel Known.DurJsonP Known.FmJsonP Known.CivilModel Known.CivilP Known.TsJsonModel Known.TsJsonP Known.TsGrammarP Gen.KnownGo Known.KnownGoP.
Import ListNotations.
Open Scope Z_scope.

(* Tier T: the range constants of the model are those of the current source
   (Gen/KnownGo.v, regenerated from encoding/protojson/well_known_types.go and types/known/*pb) *)
Theorem C23_constants_match_source :
  c_pj_secondsInNanos = seconds_in_nanos /\ c_pj_maxSecondsInDuration = max_seconds_in_duration /\
  c_pj_maxTimestampSeconds = max_timestamp_seconds /\ c_pj_minTimestampSeconds = min_timestamp_seconds /\
  c_pj_maxSecondsInDuration = c_dur_check_absDuration /\
  c_pj_maxTimestampSeconds = c_ts_check_maxTimestamp /\ c_pj_minTimestampSeconds = c_ts_check_minTimestamp.
Proof. exact json_constants_match_source. Qed.
Print Assumptions C23_constants_match_source.

(* ---------------- Duration ---------------- *)

(* Marshal accepts exactly the valid Durations (check() = 0 of C43) *)
Theorem C23_duration_marshal_range :
  forall secs nanos, (exists out, marshal_duration secs nanos = MOk out) <-> dur_check secs nanos = 0.
Proof. exact marshal_duration_accepts. Qed.
Print Assumptions C23_duration_marshal_range.

(* every valid seconds/nanos pair round-trips exactly *)
Theorem C23_duration_json_roundtrip :
  forall secs nanos, dur_check secs nanos = 0 ->
  exists out, marshal_duration secs nanos = MOk out /\
              parse_duration out = Some (secs, nanos) /\ unmarshal_duration out = UOk secs nanos.
Proof. exact duration_json_roundtrip. Qed.
Print Assumptions C23_duration_json_roundtrip.

(* the output has 0, 3, 6 or 9 fractional digits *)
Theorem C23_duration_json_frac_digits :
  forall secs nanos, dur_check secs nanos = 0 ->
  exists pre fd, marshal_duration secs nanos = MOk (pre ++ (match fd with [] => [] | _ => dot :: fd end) ++ [ch_s]) /\
                 ~ In dot pre /\ Forall D fd /\
                 (length fd = 0 \/ length fd = 3 \/ length fd = 6 \/ length fd = 9)%nat.
Proof. exact duration_json_frac_digits. Qed.
Print Assumptions C23_duration_json_frac_digits.

(* parseDuration accepts s  <->  s = [+-]? ( (0 | [1-9]d* ) ("." d{0,9})? | "." d{1,9} ) "s"
   with integer part <= MaxInt64, and returns the signed value.  (dur_syntax s neg ip fo is that
   decomposition: sign, integer digits ip, optional fraction digits fo.)
   Note: the integer part has NO leading zeros ("01s" is rejected, "1.s" is accepted, ".s" is
   rejected since the F3a repair). *)
Theorem C23_duration_grammar :
  forall s secs nanos,
  parse_duration s = Some (secs, nanos) <->
  exists neg ip fo, dur_syntax s neg ip fo /\ dec_value ip <= max_int64 /\
                    secs = apply_sign neg (dec_value ip) /\ nanos = apply_sign neg (frac_value fo).
Proof. exact duration_grammar. Qed.
Print Assumptions C23_duration_grammar.

(* ... and Unmarshal additionally demands |seconds| <= 315576000000 *)
Theorem C23_duration_unmarshal_grammar :
  forall s secs nanos,
  unmarshal_duration s = UOk secs nanos <->
  exists neg ip fo, dur_syntax s neg ip fo /\ dec_value ip <= 315576000000 /\
                    secs = apply_sign neg (dec_value ip) /\ nanos = apply_sign neg (frac_value fo).
Proof. exact duration_unmarshal_grammar. Qed.
Print Assumptions C23_duration_unmarshal_grammar.

(* ---------------- Timestamp ---------------- *)

Theorem C23_timestamp_marshal_range :
  forall secs nanos, (exists out, marshal_timestamp secs nanos = MOk out) <-> ts_check secs nanos = 0.
Proof. exact marshal_timestamp_accepts. Qed.
Print Assumptions C23_timestamp_marshal_range.

(* own civil-date arithmetic, inverse in both directions (all years) *)
Theorem C23_civil_inverse :
  (forall z, let '(y, m, d) := civil_from_days z in days_from_civil y m d = z /\ valid_date y m d) /\
  (forall y m d, valid_date y m d -> civil_from_days (days_from_civil y m d) = (y, m, d)).
Proof. exact (conj days_from_civil_from_days civil_from_days_from_civil). Qed.
Print Assumptions C23_civil_inverse.

(* every in-range (seconds, nanos) is formatted to a string that the STRICT RFC 3339 parser
   (and therefore the model of unmarshalTimestamp) reads back exactly *)
Theorem C23_timestamp_format_parse_roundtrip :
  forall secs nanos, ts_check secs nanos = 0 ->
  exists out, marshal_timestamp secs nanos = MOk out /\
              parse_ts false out = Some (secs, nanos) /\ unmarshal_timestamp out = UOk secs nanos.
Proof. exact timestamp_format_parse_roundtrip. Qed.
Print Assumptions C23_timestamp_format_parse_roundtrip.

(* the output is yyyy-mm-ddThh:mm:ss[.d{3}|.d{6}|.d{9}]Z for the civil date of the instant, years 1..9999 *)
Theorem C23_timestamp_json_shape :
  forall secs nanos, ts_check secs nanos = 0 ->
  exists y m d hh mi ss fd,
    marshal_timestamp secs nanos = MOk (pre_civil y m d hh mi ss ++ (match fd with [] => [] | _ => dot :: fd end) ++ [ch_Z]) /\
    1 <= y <= 9999 /\ valid_date y m d /\ 0 <= hh <= 23 /\ 0 <= mi <= 59 /\ 0 <= ss <= 59 /\
    secs = days_from_civil y m d * 86400 + hh * 3600 + mi * 60 + ss /\
    Forall D fd /\ (length fd = 0 \/ length fd = 3 \/ length fd = 6 \/ length fd = 9)%nat.
Proof. exact timestamp_json_shape. Qed.
Print Assumptions C23_timestamp_json_shape.

(* "parsing accepts exactly RFC 3339": REFUTED for the model of the code (known finding F3b):
   strings the strict parser rejects are accepted through the layout-driven time.Parse *)
Theorem C23_timestamp_strict_grammar_refuted :
  exists s1 s2 s3 s4,
    parse_ts false s1 = None /\ unmarshal_timestamp s1 = UOk 946684800 123456789 /\   (* "2000-01-01T00:00:00,1234567890123Z" *)
    parse_ts false s2 = None /\ unmarshal_timestamp s2 = UOk 946688400 0 /\           (* "2000-01-01T1:00:00Z" *)
    parse_ts false s3 = None /\ unmarshal_timestamp s3 = UOk 946598400 0 /\           (* "2000-01-01T00:00:00+24:00" *)
    parse_ts false s4 = None /\ unmarshal_timestamp s4 = UOk 946681200 0.             (* "2000-01-01T00:00:00+00:60" *)
Proof. exact timestamp_strict_grammar_refuted. Qed.
Print Assumptions C23_timestamp_strict_grammar_refuted.

(* whatever Unmarshal accepts beyond the strict parser comes from the lenient one *)
Theorem C23_timestamp_accepts_except_F3b :
  forall s secs nanos, unmarshal_timestamp s = UOk secs nanos ->
  (exists ns, parse_ts false s = Some (secs, ns)) \/
  (parse_ts false s = None /\ exists ns, parse_ts true s = Some (secs, ns)).
Proof. exact timestamp_accepts_except_f3b. Qed.
Print Assumptions C23_timestamp_accepts_except_F3b.

(* The grammar of the parser model, for both the strict (len = false: RFC 3339 with upper-case
   T/Z, two-digit fields, '.' fraction of any length, offset 00..23:00..59, seconds 00..59,
   year 0000..9999) and the layout-driven parser (len = true: additionally one-digit hour,
   ',' separator, offset hour 24, offset minute 60):
     parse_ts len s = Some v  <->  s has that shape (ts_syntax) and v is its value *)
Theorem C23_timestamp_grammar :
  forall len s secs ns,
  parse_ts len s = Some (secs, ns) <->
  exists y m d hh mi ss fr off, ts_syntax len s y m d hh mi ss fr off /\ (secs, ns) = ts_value y m d hh mi ss fr off.
Proof. exact timestamp_grammar. Qed.
Print Assumptions C23_timestamp_grammar.

(* whatever the lenient parser accepts is either accepted with the same value by the strict
   one or has the lenient shape without having the strict shape (the F3b class) *)
Theorem C23_timestamp_lenient_only_F3b :
  forall s secs ns,
  parse_ts true s = Some (secs, ns) -> parse_ts false s = Some (secs, ns) \/ f3b_deviation s.
Proof. exact timestamp_lenient_only_f3b. Qed.
Print Assumptions C23_timestamp_lenient_only_F3b.

(* ---------------- FieldMask ---------------- *)

(* marshal succeeds <-> every path is a valid full name p with JSONSnakeCase(JSONCamelCase p) = p *)
Theorem C23_fieldmask_marshal_accepts :
  forall paths,
  (exists out, marshal_fieldmask paths = MOk out) <->
  Forall (fun p => fullname_valid p = true /\ json_snake_case (json_camel_case p) = p) paths.
Proof. exact marshal_fieldmask_accepts. Qed.
Print Assumptions C23_fieldmask_marshal_accepts.

(* ... and then unmarshal returns the paths *)
Theorem C23_fieldmask_json_reversible :
  forall paths,
  Forall (fun p => fullname_valid p = true /\ json_snake_case (json_camel_case p) = p) paths ->
  exists out, marshal_fieldmask paths = MOk out /\ unmarshal_fieldmask out = Some paths.
Proof. exact fieldmask_json_reversible. Qed.
Print Assumptions C23_fieldmask_json_reversible.

(* ---- non-vacuity ---- *)
Local Notation "'B' s" := (String.list_byte_of_string s%string) (at level 0).
Example C23_ex_duration :
  marshal_duration 3 1000 = MOk (B "3.000001s") /\ marshal_duration (-3) (-500000000) = MOk (B "-3.500s") /\
  parse_duration (B "1.s") = Some (1, 0) /\ parse_duration (B ".s") = None /\ parse_duration (B "01s") = None /\
  parse_duration (B "-.5s") = Some (0, -500000000) /\ unmarshal_duration (B "315576000001s") = UErr 2.
Proof. vm_compute. repeat split; reflexivity. Qed.
Example C23_ex_timestamp :
  marshal_timestamp 951782400 0 = MOk (B "2000-02-29T00:00:00Z") /\
  marshal_timestamp (-62135596800) 1000 = MOk (B "0001-01-01T00:00:00.000001Z") /\
  unmarshal_timestamp (B "9999-12-31T23:59:59.999999999Z") = UOk 253402300799 999999999 /\
  unmarshal_timestamp (B "2000-01-01T00:00:00.1234567890Z") = UErr 1 /\
  unmarshal_timestamp (B "0000-12-31T23:59:59-00:01") = UOk (-62135596741) 0 /\
  unmarshal_timestamp (B "10000-01-01T00:00:00Z") = UErr 1 /\ unmarshal_timestamp (B "9999-12-31T23:59:59-00:01") = UErr 2.
Proof. vm_compute. repeat split; reflexivity. Qed.
Example C23_ex_fieldmask :
  marshal_fieldmask [B "user.display_name"; B "photo"] = MOk (B "user.displayName,photo") /\
  unmarshal_fieldmask (B " user.displayName,photo ") = Some [B "user.display_name"; B "photo"] /\
  marshal_fieldmask [B "fooBar"] = MErr 2 /\ marshal_fieldmask [B "foo__bar"] = MErr 2 /\ marshal_fieldmask [B "a-b"] = MErr 1 /\
  marshal_fieldmask [B "_a"] = MOk (B "A") /\ unmarshal_fieldmask (B "A") = Some [B "_a"].
Proof. vm_compute. repeat split; reflexivity. Qed.
