(* C44 — FieldMask operations implement path-set algebra.
   Statements only; each closed by [exact] of a lemma proved in Known/FieldMaskP.v
   or Known/FieldMaskValidP.v.  Paths are byte lists.

   covers mask p  :=  exists q in mask, q = p \/ exists w, p = q ++ "." ++ w
   sort.Slice enters only through its contract (C44_sort_contract_determines_result). *)
From Coq Require Import List NArith Bool Sorted Permutation.
From PB Require Import Base.PBytes Known.FieldMaskModel Known.FieldMaskP Known.FieldMaskValidP.
Import ListNotations.
Open Scope N_scope.

(* lessPath is a strict total order: lexicographic, bytes ordered by (b - '.') mod 256
   (so '.' is the least byte), a proper prefix is smaller *)
Theorem C44_less_path_strict_total :
  (forall x, ~ lt_path x x) /\
  (forall x y z, lt_path x y -> lt_path y z -> lt_path x z) /\
  (forall x y, lt_path x y \/ x = y \/ lt_path y x) /\
  (forall a b x y, a <> b -> (lt_path (a :: x) (b :: y) <-> (b2n a + 210) mod 256 < (b2n b + 210) mod 256)) /\
  (forall a x y, lt_path (a :: x) (a :: y) <-> lt_path x y) /\
  (forall y, lt_path [] y <-> y <> []).
Proof. exact less_path_strict_total. Qed.
Print Assumptions C44_less_path_strict_total.

(* Any function that returns a lessPath-sorted permutation of its argument is the
   model's sort: the theorems below therefore hold for the code under the sole
   assumption that sort.Slice meets that contract. *)
Theorem C44_sort_contract_determines_result :
  forall srt : list path -> list path,
  (forall l, Permutation l (srt l) /\ StronglySorted le_path (srt l)) ->
  forall l, srt l = sort_paths l.
Proof. exact sort_spec_unique. Qed.
Print Assumptions C44_sort_contract_determines_result.

Theorem C44_model_sort_meets_contract :
  forall l, Permutation l (sort_paths l) /\ StronglySorted le_path (sort_paths l).
Proof. exact (fun l => conj (sort_perm l) (sort_sorted l)). Qed.
Print Assumptions C44_model_sort_meets_contract.

(* the paths covered by [a] form a contiguous block of the order starting at [a] *)
Theorem C44_covered_block_contiguous :
  forall a b c, le_path a b -> le_path b c -> has_path_prefix c a = true -> has_path_prefix b a = true.
Proof. exact covered_block_contiguous. Qed.
Print Assumptions C44_covered_block_contiguous.

Theorem C44_has_path_prefix_spec :
  forall p q, has_path_prefix p q = true <-> (q = p \/ exists w, p = q ++ dot :: w).
Proof. exact hpp_spec. Qed.
Print Assumptions C44_has_path_prefix_spec.

Theorem C44_normalize_idempotent :
  forall paths, normalize (normalize paths) = normalize paths.
Proof. exact normalize_idempotent. Qed.
Print Assumptions C44_normalize_idempotent.

(* sorted_prefix_free l := strictly sorted by lessPath, and no element covers another *)
Theorem C44_normalize_sorted_prefix_free :
  forall paths,
  StronglySorted lt_path (normalize paths) /\
  (forall x y, In x (normalize paths) -> In y (normalize paths) -> has_path_prefix x y = true -> x = y).
Proof. exact normalize_sorted_prefix_free. Qed.
Print Assumptions C44_normalize_sorted_prefix_free.

Theorem C44_normalize_same_cover :
  forall paths p, covers (normalize paths) p <-> covers paths p.
Proof. exact normalize_same_cover. Qed.
Print Assumptions C44_normalize_same_cover.

(* the result is THE canonical form: exactly the sorted prefix-free lists are fixed points *)
Theorem C44_normalize_canonical :
  forall l, sorted_prefix_free l <-> normalize l = l.
Proof. exact normalize_canonical. Qed.
Print Assumptions C44_normalize_canonical.

Theorem C44_union_cover :
  forall mx my ms p,
  covers (fm_union mx my ms) p <-> covers mx p \/ covers my p \/ exists m, In m ms /\ covers m p.
Proof. exact union_cover. Qed.
Print Assumptions C44_union_cover.

Theorem C44_intersect_cover :
  forall mx my ms p,
  covers (fm_intersect mx my ms) p <-> covers mx p /\ covers my p /\ forall m, In m ms -> covers m p.
Proof. exact intersect_cover. Qed.
Print Assumptions C44_intersect_cover.

Theorem C44_union_intersect_canonical :
  forall mx my ms, sorted_prefix_free (fm_union mx my ms) /\ sorted_prefix_free (fm_intersect mx my ms).
Proof. exact (fun mx my ms => conj (union_sorted_prefix_free mx my ms) (intersect_sorted_prefix_free mx my ms)). Qed.
Print Assumptions C44_union_intersect_canonical.

(* a path is accepted iff it splits at dots into segments that name a chain of
   fields in which every non-final field is a singular message field *)
Theorem C44_valid_paths_exact :
  forall sc root p,
  path_valid sc root p = true <->
  exists segs, segs <> [] /\ Forall nodot segs /\ p = join_dots segs /\ reach sc root segs.
Proof. exact valid_paths_exact. Qed.
Print Assumptions C44_valid_paths_exact.

Theorem C44_is_valid_exact :
  forall sc root paths,
  fm_is_valid sc root paths = true <-> Forall (fun p => path_valid sc root p = true) paths.
Proof. exact is_valid_exact. Qed.
Print Assumptions C44_is_valid_exact.

(* Append (and New = Append to the empty mask) appends exactly the longest valid
   prefix and reports an error iff a path remains, the first remaining one being invalid *)
Theorem C44_append_exact :
  forall sc root have paths,
  let '(out, err) := fm_append sc root have paths in
  exists pre post, paths = pre ++ post /\ out = have ++ pre /\
    Forall (fun p => path_valid sc root p = true) pre /\
    (err = false <-> post = []) /\
    (forall p post', post = p :: post' -> path_valid sc root p = false).
Proof. exact append_exact. Qed.
Print Assumptions C44_append_exact.

(* The code's lookup rule [names] of C44_valid_paths_exact (ByName, then ByName(ToLower), each
   checked against TextName) selects exactly the field whose text-format name is the segment,
   for every well-formed schema (unique field names and text names per message; TextName is the
   field name or a message name that lower-cases to it).  No exclusion: F16 is repaired. *)
Theorem C44_names_text_exact :
  forall sc md seg fd, schema_wf sc -> (names sc md seg fd <-> names_text sc md seg fd).
Proof. exact names_text_exact. Qed.
Print Assumptions C44_names_text_exact.

Theorem C44_valid_paths_text_name_exact :
  forall sc root p, schema_wf sc ->
  (path_valid sc root p = true <->
   exists segs, segs <> [] /\ Forall nodot segs /\ p = join_dots segs /\ reach_text sc root segs).
Proof. exact valid_paths_text_name_exact. Qed.
Print Assumptions C44_valid_paths_text_name_exact.

(* ---- non-vacuity ---- *)
Local Notation "'a'" := "a"%byte. Local Notation "'b'" := "b"%byte. Local Notation "'c'" := "c"%byte.
Example C44_ex_normalize :
  normalize [[b; dot; c]; [a]; [b]; [a; dot; b]; [a; b]] = [[a]; [a; b]; [b]].
Proof. vm_compute. reflexivity. Qed.
Example C44_ex_intersect :
  fm_intersect [[a]; [b; dot; c]] [[a; dot; b]; [b]] [] = [[a; dot; b]; [b; dot; c]].
Proof. vm_compute. reflexivity. Qed.
Example C44_ex_dot_least :   (* "a.b" < "a-" although '-' (0x2d) < '.' (0x2e) numerically *)
  less_path [a; dot; b] [a; "-"%byte] = true.
Proof. vm_compute. reflexivity. Qed.
Example C44_ex_valid :
  let sc := [ {| m_name := [a]; m_fields := [ {| f_name := [b]; f_text := [b]; f_kind := KMessage 0; f_rep := false |};
                                            {| f_name := [c]; f_text := [c]; f_kind := KMessage 0; f_rep := true |} ] |} ] in
  path_valid sc 0 [b; dot; b; dot; c] = true /\ path_valid sc 0 [c; dot; b] = false /\
  path_valid sc 0 [b; dot] = false /\ path_valid sc 0 [] = false.
Proof. vm_compute. auto. Qed.
(* F16 regression: a DELIMITED field "c" of message type "a" that is not group-like is named "c";
   a group-like field "a" of type "A" is named "A" *)
Example C44_ex_text_name :
  let sc := [ {| m_name := ["A"%byte]; m_fields := [ {| f_name := [c]; f_text := [c]; f_kind := KGroup 0; f_rep := false |};
                                                   {| f_name := [a]; f_text := ["A"%byte]; f_kind := KGroup 0; f_rep := false |} ] |} ] in
  path_valid sc 0 [c] = true /\ path_valid sc 0 [c; dot; "A"%byte] = true /\ path_valid sc 0 ["A"%byte] = true /\
  path_valid sc 0 [a] = false.
Proof. vm_compute. auto. Qed.
