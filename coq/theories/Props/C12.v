(* C12 — Oneof members are mutually exclusive.
   Statements only; each closed by [exact] of a lemma proved in Msg/OneofP.v. *)
From Coq Require Import List NArith Bool.
From PB Require Import Base.PBytes Msg.OneofModel Msg.OneofP.
Import ListNotations.
Open Scope N_scope.

(** oneof_invariant, interface-wrapper representation (open, hybrid and opaque generated
    structs): after every history of Set / Clear / Mutable / Clear<Oneof> / generated setters /
    typed-nil assignment / Merge / binary decoding, from any wrapper state: at most one member
    reports Has, WhichOneof names exactly that member, and the wrapper refines the abstract
    [option (member, value)] state. *)
Theorem C12_oneof_invariant_wrapper :
  forall members ops w0, NoDup members ->
  let w := wrun w0 ops in
  (wpopulated members w <= 1)%nat /\
  (forall m, whas w m = true <-> wwhich w = Some m) /\
  wabs w = arun (wabs w0) ops /\
  (forall m, whas w m = ahas (arun (wabs w0) ops) m) /\
  wwhich w = awhich (arun (wabs w0) ops).
Proof. exact wrapper_invariant. Qed.
Print Assumptions C12_oneof_invariant_wrapper.
Example C12_oneof_invariant_wrapper_nonvacuous :
  NoDup [111; 112; 113] /\
  wrun WNil [OSet 111 (OVScalar 5); OMutable 112; OMerge (Some (113, OVBytes []))] = WVal 113 (OVBytes []).
Proof. split; [repeat constructor; cbn; intuition discriminate|reflexivity]. Qed.

(** oneof_invariant, dynamicpb: the [known] map with clearOtherOneofFields, from the empty
    message, for histories that name members of this oneof. *)
Theorem C12_oneof_invariant_dynamic :
  forall members ops, NoDup members -> Forall (fun o => op_ok members o = true) ops ->
  let k := drun members kempty ops in
  (dpopulated members k <= 1)%nat /\
  (forall m, In m members -> (dhas k m = true <-> dwhich members k = Some m)) /\
  dabs members k = arun None ops /\
  (forall m, In m members -> dhas k m = ahas (arun None ops) m) /\
  dwhich members k = awhich (arun None ops).
Proof. exact dynamic_invariant. Qed.
Print Assumptions C12_oneof_invariant_dynamic.
Example C12_oneof_invariant_dynamic_nonvacuous :
  Forall (fun o => op_ok [111; 112] o = true) [OSet 111 (OVScalar 5); OMutable 112; OClear 111] /\
  dwhich [111; 112] (drun [111; 112] kempty [OSet 111 (OVScalar 5); OMutable 112; OClear 111]) = Some 112.
Proof. split; [repeat constructor|reflexivity]. Qed.

(** the generated hybrid/opaque accessors (Which<Oneof>, Has<Member>: Go type switch) agree with
    reflection on every well-formed wrapper; all operations except the direct assignment of a
    typed nil wrapper pointer keep the wrapper well-formed *)
Theorem C12_generated_accessors_agree :
  forall w, wrap_wf w = true ->
  gcase w = match wwhich w with Some m => m | None => 0 end /\ forall m, ghas w m = whas w m.
Proof. exact (fun w H => conj (gcase_which w H) (fun m => ghas_whas w m H)). Qed.
Print Assumptions C12_generated_accessors_agree.
Theorem C12_wellformed_preserved :
  forall w o, wrap_wf w = true -> (forall m, o <> OSetTypedNil m) -> wrap_wf (wstep w o) = true.
Proof. exact wstep_wf. Qed.
Print Assumptions C12_wellformed_preserved.
(* observation (not a violation of C12: reflection stays exclusive): with an ill-formed typed nil
   wrapper pointer the generated accessors report the member as set, reflection does not *)
Theorem C12_typed_nil_accessors_disagree :
  forall m, m <> 0 ->
  gcase (WTypedNil m) = m /\ wwhich (WTypedNil m) = None /\ ghas (WTypedNil m) m = true /\ whas (WTypedNil m) m = false.
Proof. exact typed_nil_disagreement. Qed.
Print Assumptions C12_typed_nil_accessors_disagree.

(** binary_last_wins *)
Theorem C12_binary_last_wins :
  forall st occ m v, awhich (wire_decode st (occ ++ [(m, v)])) = Some m.
Proof. exact binary_last_wins_which. Qed.
Print Assumptions C12_binary_last_wins.

Theorem C12_binary_last_wins_scalar :
  forall st occ m v, (forall sm, v <> OVMsg sm) -> wire_decode st (occ ++ [(m, v)]) = Some (m, v).
Proof. exact binary_last_wins_scalar. Qed.
Print Assumptions C12_binary_last_wins_scalar.
Example C12_binary_last_wins_scalar_nonvacuous : forall sm, OVScalar 7 <> OVMsg sm.
Proof. discriminate. Qed.

(** a trailing run of occurrences of the same message member merges; anything before it is dropped *)
Theorem C12_binary_last_wins_message :
  forall st pre m block, block <> [] -> awhich (wire_decode st pre) <> Some m ->
  wire_decode st (pre ++ map (fun sm => (m, OVMsg sm)) block) = Some (m, OVMsg (merge_block block)).
Proof. exact binary_last_wins_message. Qed.
Print Assumptions C12_binary_last_wins_message.
Example C12_binary_last_wins_message_nonvacuous :
  wire_decode None ([(111, OVScalar 1)] ++ map (fun sm => (112, OVMsg sm)) [(Some 5, None); (None, Some 6)])
  = Some (112, OVMsg (Some 5, Some 6)) /\ awhich (wire_decode None [(111, OVScalar 1)]) <> Some 112.
Proof. split; [reflexivity|discriminate]. Qed.

(** binary decoding through the wrapper or through dynamicpb is the abstract decoding *)
Theorem C12_binary_decode_is_op_semantics :
  forall st occ, wire_decode st occ = arun st (map (fun mv => OWire (fst mv) (snd mv)) occ).
Proof. exact wire_decode_arun. Qed.
Print Assumptions C12_binary_decode_is_op_semantics.

(** json_text_reject_two_members: every event sequence that names (with a value that is not a
    skipped JSON null) two fields of one oneof is rejected; in particular two distinct members *)
Theorem C12_json_reject_two_members :
  forall o pre e1 mid e2 post,
  names_oneof o e1 -> names_oneof o e2 ->
  exists e, json_decode (pre ++ e1 :: mid ++ e2 :: post) = TErr e.
Proof. exact json_rejects_two_members. Qed.
Print Assumptions C12_json_reject_two_members.
Example C12_json_reject_two_members_nonvacuous :
  names_oneof 0 (mkTev 111 (Some 0) false) /\
  json_decode [mkTev 111 (Some 0) false; mkTev 113 (Some 0) false] = TErr EOneofSet /\
  (* a JSON null on a non-Value member is skipped: this document is accepted (conformance:
     OneofFieldNullFirst / OneofFieldNullSecond) *)
  json_decode [mkTev 111 (Some 0) true; mkTev 113 (Some 0) false] = TOk [113].
Proof. repeat split. Qed.

Theorem C12_text_reject_two_members :
  forall o pre e1 mid e2 post,
  te_oneof e1 = Some o -> te_oneof e2 = Some o ->
  exists e, text_decode (pre ++ e1 :: mid ++ e2 :: post) = TErr e.
Proof. exact text_rejects_two_members. Qed.
Print Assumptions C12_text_reject_two_members.
Example C12_text_reject_two_members_nonvacuous :
  text_decode [mkTev 111 (Some 0) false; mkTev 1 None false; mkTev 113 (Some 0) false] = TErr EOneofSet.
Proof. reflexivity. Qed.
