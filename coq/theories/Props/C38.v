(* C38 — Editions features resolve by inheritance and preserve semantics.
   Statements only; each closed by [exact] of a lemma proved in Desc/FeaturesP.v.
   The model is Desc/FeaturesModel.v over the defaults table Gen/EditionDefaults.v, which is
   regenerated from internal/editiondefaults/editions_defaults.binpb on every run. *)
From Coq Require Import List NArith Bool.
From PB Require Import Gen.EditionDefaults Desc.FeaturesModel Desc.FeaturesP.
Import ListNotations.
Open Scope N_scope.

(* For every supported edition, every chain file :: message* :: leaf of explicit feature sets
   and every feature: the resolved value is the setting of the nearest ancestor-or-self that
   sets it (the last one on the chain), else the edition default. *)
Theorem C38_resolve_nearest_override : forall ed chain ft,
  supported ed = true ->
  exists e d dv,
    resolve ed chain = Some e /\ defaults_for ed = DOk d /\ ov_get ft d = Some dv /\
    ((forall o, In o chain -> ov_get ft o = None) -> view ft e = interp ft dv) /\
    (forall pre o post v, chain = pre ++ o :: post -> ov_get ft o = Some v ->
        (forall o', In o' post -> ov_get ft o' = None) -> view ft e = interp ft v).
Proof. exact resolve_nearest_override. Qed.
Print Assumptions C38_resolve_nearest_override.

Example C38_resolve_nearest_override_nonvacuous :
  supported 1000 = true /\
  (* file says IMPLICIT, the message says nothing, the field says LEGACY_REQUIRED *)
  option_map (view FPresence)
    (resolve 1000 [mkOv (Some 2) None None None None None None None None; ov_empty;
                   mkOv (Some 3) None None None None None None None None])
  = Some (VBB true true) /\
  option_map (view FPresence) (resolve 1000 [mkOv (Some 2) None None None None None None None None; ov_empty])
  = Some (VBB false false) /\
  option_map (view FPresence) (resolve 1000 [ov_empty; ov_empty]) = Some (VBB true false).
Proof. repeat split. Qed.

(* the explicit [packed] field option is nearer than any feature setting *)
Theorem C38_field_packed_option_wins : forall legacy syntax parent own fi b,
  fi_packedopt fi = Some b ->
  fr_packed (field_record legacy syntax parent own fi)
  = (fr_card (field_record legacy syntax parent own fi) =? 3)
    && negb (kind_unpackable (fr_kind (field_record legacy syntax parent own fi))) && b.
Proof. exact field_packed_option_wins. Qed.
Print Assumptions C38_field_packed_option_wins.

Example C38_field_packed_option_wins_nonvacuous :
  fr_packed (field_record false 4 E_proto3 ov_empty (mkFieldIn 3 5 (Some false) false false false)) = false /\
  fr_packed (field_record false 4 E_proto3 ov_empty (mkFieldIn 3 5 None false false false)) = true.
Proof. split; reflexivity. Qed.

(* The defaults table (Tier T): fixed and overridable features are disjoint in every row, so
   protodesc (fixed, then overridable) and filedesc (wire order) read the same defaults; and
   every feature number is one filedesc.unmarshalFeatureSet knows. *)
Theorem C38_defaults_fixed_overridable_disjoint : forallb row_disjoint edition_defaults = true.
Proof. exact defaults_fixed_overridable_disjoint. Qed.
Print Assumptions C38_defaults_fixed_overridable_disjoint.
Theorem C38_defaults_fields_known :
  forallb (fun r => forallb (fun p => known_num (fst p)) (fst (snd r) ++ snd (snd r))) edition_defaults = true.
Proof. exact defaults_fields_known. Qed.
Print Assumptions C38_defaults_fields_known.

(* legacy_syntax_equivalence, part 1: a proto2 / proto3 file and its editions-2023 translation
   (file-level overrides [p2_file_ov] / [p3_file_ov]) give every message, at any nesting depth,
   exactly the same resolved feature set:
     proto2 = EXPLICIT presence, CLOSED enums, EXPANDED, no UTF-8 validation, LENGTH_PREFIXED, legacy JSON
     proto3 = IMPLICIT presence, OPEN enums, PACKED, VERIFY, LENGTH_PREFIXED, JSON ALLOW *)
Theorem C38_legacy_file_features : forall n,
  resolve 998 (ov_empty :: repeat ov_empty n) = Some E_proto2 /\
  resolve 1000 (p2_file_ov :: repeat ov_empty n) = Some E_proto2 /\
  resolve 999 (ov_empty :: repeat ov_empty n) = Some E_proto3 /\
  resolve 1000 (p3_file_ov :: repeat ov_empty n) = Some E_proto3.
Proof. exact legacy_file_features. Qed.
Print Assumptions C38_legacy_file_features.

(* part 2: every proto2 field (any label, kind, [packed] option, oneof membership, map-ness,
   extension or not; extensions are never required) has the same resolved field record
   (cardinality, kind, presence, packedness, UTF-8 enforcement) as its translation:
   required -> field_presence LEGACY_REQUIRED, group -> message_encoding DELIMITED,
   [packed=b] -> repeated_field_encoding. *)
Theorem C38_legacy_syntax_equivalence_proto2 : forall legacy fi,
  (fi_is_ext fi = true -> fi_label fi <> 2) ->
  field_record legacy 2 E_proto2 ov_empty fi
  = field_record legacy 4 E_proto2 (p2_field_ov fi) (p2_field_tr fi).
Proof. exact proto2_field_equivalence. Qed.
Print Assumptions C38_legacy_syntax_equivalence_proto2.

Example C38_legacy_syntax_equivalence_proto2_nonvacuous :
  (* a required group: LEGACY_REQUIRED + DELIMITED give back cardinality Required and GroupKind *)
  field_record false 4 E_proto2 (p2_field_ov (mkFieldIn 2 10 None false false false)) (p2_field_tr (mkFieldIn 2 10 None false false false))
  = mkFieldRec 2 10 true false false.
Proof. reflexivity. Qed.

(* part 3: every proto3 message field (proto3_optional fields sit in a synthetic oneof and
   are optional) equals its translation: proto3_optional -> field_presence EXPLICIT. *)
Theorem C38_legacy_syntax_equivalence_proto3 : forall legacy p3opt fi,
  fi_is_ext fi = false ->
  (p3opt = true -> fi_in_oneof fi = true /\ fi_label fi = 1) ->
  field_record legacy 3 E_proto3 ov_empty fi
  = field_record legacy 4 E_proto3 (p3_field_ov p3opt fi) (p3_field_tr p3opt fi).
Proof. exact proto3_field_equivalence. Qed.
Print Assumptions C38_legacy_syntax_equivalence_proto3.

Example C38_legacy_syntax_equivalence_proto3_nonvacuous :
  field_record false 3 E_proto3 ov_empty (mkFieldIn 1 9 None true false false) = mkFieldRec 1 9 true false true /\
  field_record false 3 E_proto3 ov_empty (mkFieldIn 1 9 None false false false) = mkFieldRec 1 9 false false true.
Proof. split; reflexivity. Qed.

(* proto3 extensions (custom options): equal except for the UTF-8 bit — strs.EnforceUTF8 only
   consults the feature through filedesc.Field.EnforceUTF8, which extension descriptors do not
   have, so an extension declared in an editions file never enforces UTF-8.
   Full statement (all five components equal) is refuted by the model: *)
Theorem C38_legacy_syntax_equivalence_proto3_extension_partial : forall legacy fi,
  fi_is_ext fi = true ->
  let a := field_record legacy 3 E_proto3 ov_empty fi in
  let b := field_record legacy 4 E_proto3 (p3_field_ov false fi) (p3_field_tr false fi) in
  fr_card a = fr_card b /\ fr_kind a = fr_kind b /\ fr_presence a = fr_presence b /\ fr_packed a = fr_packed b.
Proof. exact proto3_extension_equivalence_partial. Qed.
Print Assumptions C38_legacy_syntax_equivalence_proto3_extension_partial.

Theorem C38_legacy_syntax_equivalence_proto3_extension_utf8_refuted :
  exists fi, fi_is_ext fi = true /\
    fr_utf8 (field_record false 3 E_proto3 ov_empty fi) = true /\
    fr_utf8 (field_record false 4 E_proto3 (p3_field_ov false fi) (p3_field_tr false fi)) = false.
Proof. exact proto3_extension_utf8_differs. Qed.
Print Assumptions C38_legacy_syntax_equivalence_proto3_extension_utf8_refuted.

(* codec_depends_only_on_resolved (_partial: stated over an abstract codec that is a function
   of the resolved field record; that the real codecs read nothing else off the descriptor is
   what the harness checks on the editionsfuzztest message pairs). *)
Theorem C38_codec_depends_only_on_resolved_partial :
  forall (Out : Type) (codec : fieldrec -> Out) legacy s1 s2 p1 p2 o1 o2 f1 f2,
    field_record legacy s1 p1 o1 f1 = field_record legacy s2 p2 o2 f2 ->
    codec (field_record legacy s1 p1 o1 f1) = codec (field_record legacy s2 p2 o2 f2).
Proof. exact (@codec_depends_only_on_resolved). Qed.
Print Assumptions C38_codec_depends_only_on_resolved_partial.

(* Corollary used by the harness comparison: the translated proto2 field behaves identically
   under every such codec. *)
Theorem C38_proto2_translation_same_codec :
  forall (Out : Type) (codec : fieldrec -> Out) legacy fi,
    (fi_is_ext fi = true -> fi_label fi <> 2) ->
    codec (field_record legacy 2 E_proto2 ov_empty fi)
    = codec (field_record legacy 4 E_proto2 (p2_field_ov fi) (p2_field_tr fi)).
Proof. exact (fun Out codec legacy fi H => f_equal codec (proto2_field_equivalence legacy fi H)). Qed.
Print Assumptions C38_proto2_translation_same_codec.
