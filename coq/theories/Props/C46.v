(* C46 — Legacy and struct-tag-only messages behave like generated ones.
   Category "other": what is PROVED here concerns the struct-tag codec
   (internal/encoding/tag, model Desc/TagModel.v) through which the runtime
   learns the schema of such messages; the behavioural equality with generated /
   dynamicpb messages (wire bytes, JSON/text, reflection, cross-decoding) is
   searched for by the harness family "legacy" on the twelve historical
   generations and on struct-tag-only types, not proved.
   Statements only; each closed by [exact] of a lemma proved in Desc/TagP.v. *)
From Coq Require Import List NArith ZArith Bool.
From PB Require Import Base.PBytes Desc.TagModel Desc.TagP.
Import ListNotations.
Open Scope N_scope.

(* Unmarshal (Marshal f) = f on everything the tag carries, for every field
   record in the codec's domain [tag_domain]:
     kind one of the 18 protobuf kinds (an enum field needs its enum name),
     number in [0, 2^31), cardinality optional/required/repeated,
     names without ',' and '.', a group's field name is its lower-cased message
     name, not an extension (extensions lose json= and proto3 by design), the
     JSON name is the default one or a custom one different from the written
     name and from its camel-casing, IsPacked only on repeated packable kinds,
     and a proto3 repeated packable field is packed (see FJ2 below);
   the default value is the text after "def=" (arbitrary bytes, commas included;
   its parsing is C39).  Not carried by Unmarshal at all: oneof membership,
   the enum / message type, weak. *)
Theorem C46_tag_unmarshal_marshal :
  forall f, tag_domain f ->
  let u := unmarshal (gokind_of (f_kind f)) (marshal f) in
  u_name u = f_name f /\ u_number u = f_number f /\ u_card u = f_card f /\ u_kind u = f_kind f /\
  u_json_name u = f_json f /\ u_is_packed u = f_packed f /\ u_proto3 u = f_proto3 f /\ u_def u = f_def f.
Proof. exact tag_unmarshal_marshal. Qed.
Print Assumptions C46_tag_unmarshal_marshal.

Definition c46_example : tfield :=
  {| f_kind := 14; f_number := 215%Z; f_card := 1; f_packed := false;
     f_name := [x6f; x70; x74; x5f; x65];              (* "opt_e" *)
     f_msgname := [];
     f_json := [x6f; x70; x74; x45];                   (* "optE" *)
     f_ext := false; f_proto3 := false;
     f_enum := [x70; x2e; x45];                        (* "p.E" *)
     f_oneof := true;
     f_def := Some [x31; x2c; x6e; x61; x6d; x65; x3d] (* "1,name=" *) |}.
Example C46_tag_unmarshal_marshal_nonvacuous : tag_domain c46_example.
Proof.
  constructor; cbn [c46_example f_kind f_number f_card f_packed f_name f_msgname f_json f_ext f_proto3 f_enum f_oneof f_def].
  - split; now compute.
  - discriminate.
  - split; now compute.
  - split; now compute.
  - split; reflexivity.
  - discriminate.
  - reflexivity.
  - reflexivity.
  - reflexivity.
  - left. reflexivity.
  - discriminate.
  - discriminate.
Qed.

(* the field that aberrantAppendField derives from a struct field whose tag was
   written by Marshal is the field that was marshalled.
   _partial: the model covers the tag decoding and the naming; the mapping of Go
   types to the tag's Go kind, the resolution of message / enum types, map
   entries and oneof wrappers are not modelled (the harness compares the derived
   descriptors of 1524 fields and 354 extensions with the generated ones). *)
Theorem C46_derived_field_matches_tag_partial :
  forall parent sh f,
  tag_domain f -> elem_kind sh = gokind_of (f_kind f) ->
  let u := derive_field parent sh (marshal f) in
  u_name u = parent ++ dot :: f_name f /\ u_number u = f_number f /\ u_card u = f_card f /\ u_kind u = f_kind f /\
  u_json_name u = f_json f /\ u_is_packed u = f_packed f /\ u_proto3 u = f_proto3 f /\ u_def u = f_def f.
Proof. exact derived_field_matches_tag. Qed.
Print Assumptions C46_derived_field_matches_tag_partial.
Example C46_derived_field_matches_tag_nonvacuous :
  tag_domain c46_example /\ elem_kind (ShPtr GInt32) = gokind_of (f_kind c46_example).
Proof. split; [exact C46_tag_unmarshal_marshal_nonvacuous|reflexivity]. Qed.

(* FJ2: the last domain condition cannot be dropped: "varint,1,rep,name=f,proto3"
   (a proto3 repeated int32 declared [packed=false]) comes back packed *)
Theorem C46_tag_roundtrip_proto3_unpacked_refuted :
  u_is_packed (unmarshal (gokind_of (f_kind fj2_witness)) (marshal fj2_witness)) <> f_packed fj2_witness.
Proof. exact proto3_unpacked_not_preserved. Qed.
Print Assumptions C46_tag_roundtrip_proto3_unpacked_refuted.
