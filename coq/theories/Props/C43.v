(* C43 — Timestamp and Duration helpers convert exactly.
   Statements only; each closed by [exact] of a lemma of Known/DurationP.v or
   Known/TimestampP.v.  int64/int32 are Z with explicit range predicates; the
   model (Known/DurationModel.v, Known/TimestampModel.v) wraps at every Go
   arithmetic operation. *)
From Coq Require Import ZArith Bool.
From PB Require Import Base.GoInt Gen.KnownGo Known.DurationModel Known.DurationP Known.TimestampModel Known.TimestampP Known.KnownGoP.
Open Scope Z_scope.

(* durationpb.New(d).AsDuration() == d for every time.Duration *)
Theorem C43_duration_new_as_inverse :
  forall d, in_int64 d -> let '(s, n) := dur_new d in as_duration s n = d.
Proof. exact duration_new_as_inverse. Qed.
Print Assumptions C43_duration_new_as_inverse.

Theorem C43_duration_new_fields :
  forall d, in_int64 d -> dur_new d = (Z.quot d e9, Z.rem d e9).
Proof. exact dur_new_spec. Qed.
Print Assumptions C43_duration_new_fields.

(* timestamppb.New(t).AsTime() equals t for every time.Time *)
Theorem C43_timestamp_new_as_inverse :
  forall t, time_ok t -> let '(s, n) := ts_new t in as_time s n = t.
Proof. exact timestamp_new_as_inverse. Qed.
Print Assumptions C43_timestamp_new_as_inverse.

Theorem C43_timestamp_as_new_inverse :
  forall secs nanos, in_int64 secs -> 0 <= nanos < e9 -> ts_new (as_time secs nanos) = (secs, nanos).
Proof. exact timestamp_as_new_inverse. Qed.
Print Assumptions C43_timestamp_as_new_inverse.

Theorem C43_as_time_spec :
  forall secs nanos, in_int64 secs -> in_int32 nanos ->
  let t := as_time secs nanos in
  time_ok t /\ t_nsec t = nanos mod e9 /\ time_unix t = wrap64 (secs + nanos / e9).
Proof. exact as_time_spec. Qed.
Print Assumptions C43_as_time_spec.

(* "AsDuration returns the exact value clamped to the int64 range for any seconds/nanos":
   REFUTED as the code stands (known finding F4) *)
Theorem C43_as_duration_exact_clamped_refuted :
  exists secs nanos, in_int64 secs /\ in_int32 nanos /\
    as_duration secs nanos <> clamp64 (secs * e9 + nanos) /\
    as_duration secs nanos = max_int64 /\ secs * e9 + nanos = 9223372036000000001 /\
    in_int64 (secs * e9 + nanos).
Proof. exact as_duration_exact_clamped_refuted. Qed.
Print Assumptions C43_as_duration_exact_clamped_refuted.

(* ... and it holds on every input outside the class
     f4_class secs nanos := (MaxInt64 < secs*10^9 /\ secs*10^9 + nanos < MaxInt64) \/
                            (secs*10^9 < MinInt64 /\ MinInt64 < secs*10^9 + nanos) *)
Theorem C43_as_duration_exact_clamped_except_F4 :
  forall secs nanos, in_int64 secs -> in_int32 nanos -> f4_class secs nanos = false ->
  as_duration secs nanos = clamp64 (secs * e9 + nanos).
Proof. exact as_duration_exact_clamped_except_F4. Qed.
Print Assumptions C43_as_duration_exact_clamped_except_F4.

(* the exclusion is the narrowest possible: the result is wrong on every input of the class *)
Theorem C43_as_duration_wrong_exactly_on_F4 :
  forall secs nanos, in_int64 secs -> in_int32 nanos -> f4_class secs nanos = true ->
  as_duration secs nanos <> clamp64 (secs * e9 + nanos).
Proof. exact as_duration_wrong_on_F4. Qed.
Print Assumptions C43_as_duration_wrong_exactly_on_F4.

Theorem C43_f4_class_narrow :
  forall secs nanos, in_int32 nanos -> f4_class secs nanos = true ->
  (9223372037 <= secs <= 9223372039 /\ nanos < -145224192) \/
  (-9223372039 <= secs <= -9223372037 /\ 145224192 < nanos).
Proof. exact f4_class_narrow. Qed.
Print Assumptions C43_f4_class_narrow.

(* CheckValid / IsValid accept exactly the documented ranges *)
Theorem C43_check_ranges_exact_duration :
  forall secs nanos,
  dur_check secs nanos = 0 <->
  (- 315576000000 <= secs <= 315576000000 /\ - 999999999 <= nanos <= 999999999 /\
   ~ (secs > 0 /\ nanos < 0) /\ ~ (secs < 0 /\ nanos > 0)).
Proof. exact dur_check_ranges_exact. Qed.
Print Assumptions C43_check_ranges_exact_duration.

Theorem C43_check_ranges_exact_timestamp :
  forall secs nanos,
  ts_check secs nanos = 0 <-> (-62135596800 <= secs <= 253402300799 /\ 0 <= nanos <= 999999999).
Proof. exact ts_check_ranges_exact. Qed.
Print Assumptions C43_check_ranges_exact_timestamp.

Theorem C43_check_error_classes_duration :
  forall secs nanos,
  (dur_check secs nanos = 2 <-> secs < -315576000000) /\
  (dur_check secs nanos = 3 <-> secs > 315576000000) /\
  (dur_check secs nanos = 4 <-> -315576000000 <= secs <= 315576000000 /\ (nanos <= -1000000000 \/ nanos >= 1000000000)).
Proof. exact dur_check_classes. Qed.
Print Assumptions C43_check_error_classes_duration.

Theorem C43_check_error_classes_timestamp :
  forall secs nanos,
  (ts_check secs nanos = 2 <-> secs < -62135596800) /\
  (ts_check secs nanos = 3 <-> secs > 253402300799) /\
  (ts_check secs nanos = 4 <-> -62135596800 <= secs <= 253402300799 /\ (nanos < 0 \/ nanos >= 1000000000)).
Proof. exact ts_check_classes. Qed.
Print Assumptions C43_check_error_classes_timestamp.

(* ---------------- Tier T: the Go source itself ----------------
   Gen/KnownGo.v is the Gallina translation of the current source of durationpb / timestamppb
   (regenerated on every check by srcmodel_known; methods on (x *T) are functions of
   x_nil := (x == nil) and the fields of x; a time.Time argument is represented by its Unix()
   and Nanosecond() values).  The translated functions equal the hand-written models, so every
   theorem above is a theorem about the translated source. *)
Theorem C43_go_constants_match_source :
  c_dur_check_absDuration = abs_duration /\
  c_ts_check_minTimestamp = min_timestamp /\ c_ts_check_maxTimestamp = max_timestamp /\
  (c_dur_invalidNil, c_dur_invalidUnderflow, c_dur_invalidOverflow, c_dur_invalidNanosRange, c_dur_invalidNanosSign) = (1, 2, 3, 4, 5) /\
  (c_ts_invalidNil, c_ts_invalidUnderflow, c_ts_invalidOverflow, c_ts_invalidNanos) = (1, 2, 3, 4).
Proof. exact known_constants_match_source. Qed.
Print Assumptions C43_go_constants_match_source.

Theorem C43_go_duration_New :
  forall d, in_int64 d -> go_dur_New d = dur_new d.
Proof. exact go_dur_New_model. Qed.
Print Assumptions C43_go_duration_New.

Theorem C43_go_duration_AsDuration :
  forall secs nanos, in_int64 secs -> in_int32 nanos ->
  go_dur_Duration_AsDuration false secs nanos = as_duration secs nanos.
Proof. exact go_dur_AsDuration_model. Qed.
Print Assumptions C43_go_duration_AsDuration.

Theorem C43_go_duration_AsDuration_nil :
  forall secs nanos, go_dur_Duration_AsDuration true secs nanos = 0.
Proof. exact go_dur_AsDuration_nil. Qed.
Print Assumptions C43_go_duration_AsDuration_nil.

Theorem C43_go_duration_check :
  forall x_nil secs nanos,
  go_dur_Duration_check x_nil secs nanos = dur_check_opt (if x_nil then None else Some (secs, nanos)) /\
  go_dur_Duration_IsValid x_nil secs nanos = (dur_check_opt (if x_nil then None else Some (secs, nanos)) =? 0).
Proof. exact (fun n s k => conj (go_dur_check_model n s k) (go_dur_IsValid_model n s k)). Qed.
Print Assumptions C43_go_duration_check.

Theorem C43_go_timestamp_New :
  forall t, time_ok t -> go_ts_New (time_unix t) (time_nanosecond t) = ts_new t.
Proof. exact go_ts_New_model. Qed.
Print Assumptions C43_go_timestamp_New.

Theorem C43_go_timestamp_check :
  forall x_nil secs nanos,
  go_ts_Timestamp_check x_nil secs nanos = ts_check_opt (if x_nil then None else Some (secs, nanos)) /\
  go_ts_Timestamp_IsValid x_nil secs nanos = (ts_check_opt (if x_nil then None else Some (secs, nanos)) =? 0).
Proof. exact (fun n s k => conj (go_ts_check_model n s k) (go_ts_IsValid_model n s k)). Qed.
Print Assumptions C43_go_timestamp_check.

(* the headline theorems restated on the translated source *)
Theorem C43_go_duration_new_as_inverse :
  forall d, in_int64 d -> let '(s, n) := go_dur_New d in go_dur_Duration_AsDuration false s n = d.
Proof. exact go_duration_new_as_inverse. Qed.
Print Assumptions C43_go_duration_new_as_inverse.

Theorem C43_go_as_duration_exact_clamped_except_F4 :
  forall secs nanos, in_int64 secs -> in_int32 nanos -> f4_class secs nanos = false ->
  go_dur_Duration_AsDuration false secs nanos = clamp64 (secs * e9 + nanos).
Proof. exact go_as_duration_exact_clamped_except_F4. Qed.
Print Assumptions C43_go_as_duration_exact_clamped_except_F4.

(* ---- non-vacuity ---- *)
Example C43_ex_new : dur_new (-1500000001) = (-1, -500000001) /\ as_duration (-1) (-500000001) = -1500000001.
Proof. vm_compute. auto. Qed.
Example C43_ex_clamp : as_duration 9223372036 999999999 = max_int64 /\ as_duration 9223372036 854775807 = max_int64
                       /\ as_duration 9223372036 854775806 = max_int64 - 1 /\ f4_class 9223372036 999999999 = false.
Proof. vm_compute. auto. Qed.
Example C43_ex_f4_mirror : as_duration (-9223372037) 999999999 = min_int64 /\ f4_class (-9223372037) 999999999 = true.
Proof. vm_compute. auto. Qed.
Example C43_ex_time : time_ok {| t_isec := 0; t_nsec := 999999999 |} /\
  ts_new {| t_isec := 0; t_nsec := 999999999 |} = (-62135596800, 999999999) /\
  ts_check (-62135596800) 999999999 = 0 /\ ts_check (-62135596801) 0 = 2.
Proof. unfold time_ok, in_int64. vm_compute. intuition congruence. Qed.
Example C43_ex_as_time_neg : time_unix (as_time 5 (-1)) = 4 /\ t_nsec (as_time 5 (-1)) = 999999999.
Proof. vm_compute. auto. Qed.
