(* C43 — Timestamp and Duration helpers convert exactly.
   Statements only; each closed by [exact] of a lemma of Known/DurationP.v or
   Known/TimestampP.v.  int64/int32 are Z with explicit range predicates; the
   model (Known/DurationModel.v, Known/TimestampModel.v) wraps at every Go
   arithmetic operation. *)
From Coq Require Import ZArith Bool.
From PB Require Import Known.DurationModel Known.DurationP Known.TimestampModel Known.TimestampP.
Open Scope Z_scope.

(* durationpb.New(d).AsDuration() == d for every time.Duration *)
Theorem C43_duration_new_as_inverse :
  forall d, in_int64 d -> let '(s, n) := dur_new d in as_duration s n = d.
Proof. exact duration_new_as_inverse. Qed.
Print Assumptions C43_duration_new_as_inverse.

Theorem C43_duration_new_fields :
  forall d, in_int64 d -> dur_new d = (Z.quot d e9, Z.rem d e9).
Proof. exact dur_new_spec. Qed.
Print Assumptions C43_duration_new_fields.

(* timestamppb.New(t).AsTime() equals t for every time.Time *)
Theorem C43_timestamp_new_as_inverse :
  forall t, time_ok t -> let '(s, n) := ts_new t in as_time s n = t.
Proof. exact timestamp_new_as_inverse. Qed.
Print Assumptions C43_timestamp_new_as_inverse.

Theorem C43_timestamp_as_new_inverse :
  forall secs nanos, in_int64 secs -> 0 <= nanos < e9 -> ts_new (as_time secs nanos) = (secs, nanos).
Proof. exact timestamp_as_new_inverse. Qed.
Print Assumptions C43_timestamp_as_new_inverse.

Theorem C43_as_time_spec :
  forall secs nanos, in_int64 secs -> in_int32 nanos ->
  let t := as_time secs nanos in
  time_ok t /\ t_nsec t = nanos mod e9 /\ time_unix t = wrap64 (secs + nanos / e9).
Proof. exact as_time_spec. Qed.
Print Assumptions C43_as_time_spec.

(* "AsDuration returns the exact value clamped to the int64 range for any seconds/nanos":
   REFUTED as the code stands (known finding F4) *)
Theorem C43_as_duration_exact_clamped_refuted :
  exists secs nanos, in_int64 secs /\ in_int32 nanos /\
    as_duration secs nanos <> clamp64 (secs * e9 + nanos) /\
    as_duration secs nanos = max_int64 /\ secs * e9 + nanos = 9223372036000000001 /\
    in_int64 (secs * e9 + nanos).
Proof. exact as_duration_exact_clamped_refuted. Qed.
Print Assumptions C43_as_duration_exact_clamped_refuted.

(* ... and it holds on every input outside the class
     f4_class secs nanos := (MaxInt64 < secs*10^9 /\ secs*10^9 + nanos < MaxInt64) \/
                            (secs*10^9 < MinInt64 /\ MinInt64 < secs*10^9 + nanos) *)
Theorem C43_as_duration_exact_clamped_except_F4 :
  forall secs nanos, in_int64 secs -> in_int32 nanos -> f4_class secs nanos = false ->
  as_duration secs nanos = clamp64 (secs * e9 + nanos).
Proof. exact as_duration_exact_clamped_except_F4. Qed.
Print Assumptions C43_as_duration_exact_clamped_except_F4.

(* the exclusion is the narrowest possible: the result is wrong on every input of the class *)
Theorem C43_as_duration_wrong_exactly_on_F4 :
  forall secs nanos, in_int64 secs -> in_int32 nanos -> f4_class secs nanos = true ->
  as_duration secs nanos <> clamp64 (secs * e9 + nanos).
Proof. exact as_duration_wrong_on_F4. Qed.
Print Assumptions C43_as_duration_wrong_exactly_on_F4.

Theorem C43_f4_class_narrow :
  forall secs nanos, in_int32 nanos -> f4_class secs nanos = true ->
  (9223372037 <= secs <= 9223372039 /\ nanos < -145224192) \/
  (-9223372039 <= secs <= -9223372037 /\ 145224192 < nanos).
Proof. exact f4_class_narrow. Qed.
Print Assumptions C43_f4_class_narrow.

(* CheckValid / IsValid accept exactly the documented ranges *)
Theorem C43_check_ranges_exact_duration :
  forall secs nanos,
  dur_check secs nanos = 0 <->
  (- 315576000000 <= secs <= 315576000000 /\ - 999999999 <= nanos <= 999999999 /\
   ~ (secs > 0 /\ nanos < 0) /\ ~ (secs < 0 /\ nanos > 0)).
Proof. exact dur_check_ranges_exact. Qed.
Print Assumptions C43_check_ranges_exact_duration.

Theorem C43_check_ranges_exact_timestamp :
  forall secs nanos,
  ts_check secs nanos = 0 <-> (-62135596800 <= secs <= 253402300799 /\ 0 <= nanos <= 999999999).
Proof. exact ts_check_ranges_exact. Qed.
Print Assumptions C43_check_ranges_exact_timestamp.

Theorem C43_check_error_classes_duration :
  forall secs nanos,
  (dur_check secs nanos = 2 <-> secs < -315576000000) /\
  (dur_check secs nanos = 3 <-> secs > 315576000000) /\
  (dur_check secs nanos = 4 <-> -315576000000 <= secs <= 315576000000 /\ (nanos <= -1000000000 \/ nanos >= 1000000000)).
Proof. exact dur_check_classes. Qed.
Print Assumptions C43_check_error_classes_duration.

Theorem C43_check_error_classes_timestamp :
  forall secs nanos,
  (ts_check secs nanos = 2 <-> secs < -62135596800) /\
  (ts_check secs nanos = 3 <-> secs > 253402300799) /\
  (ts_check secs nanos = 4 <-> -62135596800 <= secs <= 253402300799 /\ (nanos < 0 \/ nanos >= 1000000000)).
Proof. exact ts_check_classes. Qed.
Print Assumptions C43_check_error_classes_timestamp.

(* ---- non-vacuity ---- *)
Example C43_ex_new : dur_new (-1500000001) = (-1, -500000001) /\ as_duration (-1) (-500000001) = -1500000001.
Proof. vm_compute. auto. Qed.
Example C43_ex_clamp : as_duration 9223372036 999999999 = max_int64 /\ as_duration 9223372036 854775807 = max_int64
                       /\ as_duration 9223372036 854775806 = max_int64 - 1 /\ f4_class 9223372036 999999999 = false.
Proof. vm_compute. auto. Qed.
Example C43_ex_f4_mirror : as_duration (-9223372037) 999999999 = min_int64 /\ f4_class (-9223372037) 999999999 = true.
Proof. vm_compute. auto. Qed.
Example C43_ex_time : time_ok {| t_isec := 0; t_nsec := 999999999 |} /\
  ts_new {| t_isec := 0; t_nsec := 999999999 |} = (-62135596800, 999999999) /\
  ts_check (-62135596800) 999999999 = 0 /\ ts_check (-62135596801) 0 = 2.
Proof. unfold time_ok, in_int64. vm_compute. intuition congruence. Qed.
Example C43_ex_as_time_neg : time_unix (as_time 5 (-1)) = 4 /\ t_nsec (as_time 5 (-1)) = 999999999.
Proof. vm_compute. auto. Qed.
