(* C37 -- Compact descriptor builder agrees with protodesc.
   Statements only; each closed by [exact] of a lemma proved in Desc/ConvertP.v.
   Model: Desc/ConvertModel.v ([fd_build] = filedesc.Builder on the decoded proto,
   [new_file] = protodesc.NewFile without validation). *)
From Coq Require Import List NArith ZArith Bool.
From PB Require Import Base.PBytes Desc.ConvertModel Desc.ConvertP.
Import ListNotations.
Open Scope N_scope.
