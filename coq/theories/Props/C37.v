(* C37 -- Compact descriptor builder agrees with protodesc.
   Statements only; each closed by [exact] of a lemma proved in Desc/ConvertP.v.
   Model: Desc/ConvertModel.v ([fd_build] = filedesc.Builder on the decoded proto,
   [new_file] = protodesc.NewFile without validation). *)
From Coq Require Import List NArith ZArith Bool.
From PB Require Import Base.PBytes Desc.ConvertModel Desc.ConvertP.
Import ListNotations.
Open Scope N_scope.

(* On every proto that protodesc.NewFile accepts and that is well formed for the builder
   ([wf37]: types set, references absolute -- what protoc emits -- and none of the two
   recorded divergences FK2, FK3), filedesc.Builder yields the same resolved descriptor, hence the same
   value for every accessor computed from it.
   _partial: wire decoding of the raw descriptor is abstract (second theorem: any decoder that
   inverts the encoder); options opaque; services by name; lazy initialisation is not modelled
   as state (the harness compares snapshots before and after forcing it). *)
Theorem C37_builders_agree_partial :
  forall canon env p d, wf37 p = true -> new_file canon env p = Ok d -> fd_build canon env p = Ok d.
Proof. exact builders_agree. Qed.
Print Assumptions C37_builders_agree_partial.

Theorem C37_builders_agree_raw_partial :
  forall (encode : FileP -> bytes) (decode : bytes -> option FileP),
    (forall p, decode (encode p) = Some p) ->
    forall canon env p d, wf37 p = true -> new_file canon env p = Ok d ->
    raw_build decode canon env (encode p) = Ok d.
Proof. exact builders_agree_raw. Qed.
Print Assumptions C37_builders_agree_raw_partial.

(* the exclusions in [wf37] are necessary: the faithful models disagree (findings FK3, FK2; FK1 was repaired by 42c075f) *)
Theorem C37_builders_agree_refuted_packed_feature :
  exists p, first_field_packed (new_file idc [] p) = Some false /\ first_field_packed (fd_build idc [] p) = Some true.
Proof. exact builders_disagree_packed_feature. Qed.
Print Assumptions C37_builders_agree_refuted_packed_feature.

Theorem C37_builders_agree_refuted_extension_lazy :
  exists p, first_ext_lazy (new_file idc [] p) = Some false /\ first_ext_lazy (fd_build idc [] p) = Some true.
Proof. exact builders_disagree_extension_lazy. Qed.
Print Assumptions C37_builders_agree_refuted_extension_lazy.

(* ---- non-vacuity: a file that satisfies wf37 and is accepted by new_file *)
Example C37_ex_wf37 :
  wf37 (normalize idc [] ex_file) = true /\ is_ok (new_file idc [] (normalize idc [] ex_file)) = true.
Proof. exact ex_file_wf37. Qed.

Example C37_ex_decoder : forall p : FileP, (fun _ : bytes => Some p) ((fun _ : FileP => @nil byte) p) = Some p.
Proof. reflexivity. Qed.

(* regression for the repaired FK1: an enum-level enum_type override is honoured by both models *)
Example C37_ex_enum_features :
  wf37 fk1_file = true /\
  first_enum_open (new_file idc [] fk1_file) = Some false /\ first_enum_open (fd_build idc [] fk1_file) = Some false.
Proof. exact builders_agree_enum_features_example. Qed.
