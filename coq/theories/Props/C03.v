(* C03 — Binary Marshal/Unmarshal round-trips every message.  (placeholder; theorems follow) *)
From Coq Require Import List NArith ZArith.
From PB Require Import Base.PBytes Wire.WireModel Msg.MsgSchema Msg.MsgValue Msg.MsgEnc Msg.MsgDec.
