(* C03 — Binary Marshal/Unmarshal round-trips every message.
   Statements only; each closed by [exact] of a lemma proved in Msg/MsgRoundP.v.

   Model: Msg/MsgSchema.v (schema tables), Msg/MsgValue.v (canonical values, scalar codec),
   Msg/MsgEnc.v (deterministic encoder in order.LegacyFieldOrder), Msg/MsgDec.v (the merging
   decoder: [slow = false] the table-driven path of internal/impl, [slow = true] the reflection
   path of package proto), Msg/MsgValid.v (the decidable predicate [msg_valid]).

   Full statement (DESIGN.md section 7, C03):
     forall slow S limit tid v, valid slow S limit tid v = true ->
       decode slow S limit tid (encode S tid v) = Ok v
   i.e. identity of canonical values (stronger than proto.Equal), for every schema table S
   (recursive types allowed), both decoder paths, every recursion limit that the value fits in.

   Proved: exactly this statement.  [msg_valid] (see the comment in Msg/MsgValid.v) is the
   canonical-value predicate -- typed, in range, fields sorted by number, map entries sorted by
   key, no empty list/map, no implicit-presence zero, at most one member per oneof, depth within
   the limit (map entries cost one level, as in the code), unknown bytes a sequence of
   well-formed fields that the message type does not decode (unknown number, or known number
   with a rejected wire type; minimal tags on the table-driven path), all lengths below 2^64.
   It covers proto2/proto3/editions shapes (explicit, implicit, required presence), all 16 scalar
   kinds, packed and expanded lists, maps with scalar or message values, oneofs, groups, nested
   and recursive messages, extensions (ordinary fields of the schema table), unknown fields
   (also inside groups), and both decoder paths.

   Finding FB3 (reflection path only): there [msg_valid] additionally demands that every
   group-typed value passes the wire scanner ([msg_group_scans]), because that path reads a known
   group with protowire.ConsumeGroup -- whose nesting budget of 10000 is shared with unknown
   groups nested inside -- before decoding it.  The condition is necessary:
   [C03_reflection_groups_refuted] exhibits a message that is canonical for the table-driven
   path (and round-trips there) whose encoding the reflection path rejects; the same input is
   replayed on dynamicpb by the harness corpus (finding FB3 in KNOWN_FINDINGS.txt).  So for
   [slow = true] the theorem is the "_except_FB3" form, with [msg_group_scans] as the narrowest
   exclusion predicate; for [slow = false] it is the full statement
   ([C03_roundtrip_table_driven]).

   Not in this model: non-deterministic map order (the harness checks it on the
   implementation), lazy decoding (C17), MessageSet (C47). *)
From Coq Require Import List NArith ZArith.
From PB Require Import Base.PBytes Wire.WireModel.
From PB Require Import Msg.MsgSchema Msg.MsgValue Msg.MsgEnc Msg.MsgDec Msg.MsgValid Msg.MsgRoundP Msg.MsgExample.
Import ListNotations.
Open Scope N_scope.

Theorem C03_roundtrip :
  forall (slow : bool) (S : schema) (limit : nat) (tid : nat) (v : value),
    msg_valid slow S limit tid v = true ->
    msg_decode slow S limit tid (msg_encode S tid v) = DOk v.
Proof. exact msg_roundtrip. Qed.
Print Assumptions C03_roundtrip.

(* the table-driven path of generated messages: no condition beyond canonicity *)
Theorem C03_roundtrip_table_driven :
  forall (S : schema) (limit : nat) (tid : nat) (v : value),
    msg_valid false S limit tid v = true ->
    msg_decode false S limit tid (msg_encode S tid v) = DOk v.
Proof. exact (msg_roundtrip false). Qed.
Print Assumptions C03_roundtrip_table_driven.

(* FB3: canonical for the table-driven path, rejected by the reflection path *)
Theorem C03_reflection_groups_refuted :
  exists (S : schema) (v : value),
    msg_valid false S 2 0 v = true /\
    msg_decode false S 2 0 (msg_encode S 0 v) = DOk v /\
    msg_decode true S 2 0 (msg_encode S 0 v) = DErr DParse.
Proof. exact msg_fb3_witness. Qed.
Print Assumptions C03_reflection_groups_refuted.

(* Marshal is injective on canonical values: equal bytes, equal messages *)
Theorem C03_encode_injective :
  forall (slow : bool) (S : schema) (limit : nat) (tid : nat) (v1 v2 : value),
    msg_valid slow S limit tid v1 = true -> msg_valid slow S limit tid v2 = true ->
    msg_encode S tid v1 = msg_encode S tid v2 -> v1 = v2.
Proof. exact msg_encode_injective. Qed.
Print Assumptions C03_encode_injective.

(* non-vacuity: a message using scalars of many kinds, packed and expanded lists, two maps,
   a nested recursive sub-message, a group list, a oneof member, an extension and unknown
   fields is valid at depth 3 (not at depth 2), and its round trip computes *)
Example C03_example_valid :
  msg_valid false ex_schema 3 0 ex_msg = true /\ msg_valid false ex_schema 2 0 ex_msg = false.
Proof. vm_compute. split; reflexivity. Qed.
Example C03_example_roundtrip :
  msg_decode false ex_schema 3 0 (msg_encode ex_schema 0 ex_msg) = DOk ex_msg.
Proof. vm_compute. reflexivity. Qed.
(* the depth bound is sharp: one level less and the decoder reports the recursion limit *)
Example C03_example_depth :
  msg_decode false ex_schema 2 0 (msg_encode ex_schema 0 ex_msg) = DErr DDepth.
Proof. vm_compute. reflexivity. Qed.

(* ---------- Tier T: the generated scalar coders (internal/impl/codec_gen.go) ----------
   Gen/CodecGenTable.v is regenerated from codec_gen.go on every run (srcmodel_codecgen): one row per
   size*/append*/consume* function, holding the source text that fills the holes of the function's
   template.  Msg/CodecGenP.v gives that text its meaning ([enc_sem], [dec_sem], [zero_sem]).

   C03_go_codecgen_classified: every one of the functions matches its template as a whole (nothing
   Unclassified, packed branches repeat the same expressions, varints are read by the standard inlined
   fast path, the pointer accessor is the kind's), every coder variable binds size/marshal/unmarshal
   functions of one kind and of matching variants, and all 16 kinds are present in all three roles.

   C03_go_codecgen_conversions_match_model: for every append* function what is handed to
   protowire.Append* is [sk_enc] of the function's kind on the kind's whole domain (and the NoZero
   variants skip exactly [msg_scalar_is_zero]); for every consume* function the wire type tested is
   [sk_wt] of the kind and the value stored is [sk_dec] of the kind, for every wire value. *)
Require Import PB.Gen.CodecGenTable PB.Msg.CodecGenP.

Theorem C03_go_codecgen_classified :
  (forall r, In r funcs -> row_classified r = true) /\ funcs <> [] /\
  (forall e, In e coders -> check_coder e = true) /\ check_coverage = true.
Proof. exact codecgen_classified. Qed.
Print Assumptions C03_go_codecgen_classified.

Theorem C03_go_codecgen_conversions_match_model :
  forall r, In r funcs ->
    (r_role r = role_append ->
       exists sk wf c, row_kind r = Some sk /\ row_enc r = Some (wf, c) /\
         (forall s, sk_ok sk s = true -> enc_sem wf c s = Some (sk_enc sk s)) /\
         (r_variant r = variant_nozero -> exists zc, zero_meaning (r_zero r) = Some zc /\
            forall s, sk_ok sk s = true -> zero_sem sk zc s = Some (msg_scalar_is_zero s))) /\
    (r_role r = role_consume ->
       exists sk wf c, row_kind r = Some sk /\ row_dec r = Some (wf, c) /\
         wt_of (r_wt r) = Some (sk_wt sk) /\ wfn_wt wf = sk_wt sk /\
         (forall w, dec_sem wf c w = sk_dec sk w)).
Proof. exact codecgen_conversions_match_model. Qed.
Print Assumptions C03_go_codecgen_conversions_match_model.

(* non-vacuity: appendSint32 and consumeSint32 are rows of the table, of the roles the theorem speaks about,
   and the model functions they are tied to are the zigzag ones *)
Example C03_example_codecgen_rows :
  (exists r, row_named fn_appendSint32 r /\ r_role r = role_append /\ row_kind r = Some SkSint32 /\
             row_enc r = Some (WfVarint, EcZigZag)) /\
  (exists r, row_named fn_consumeSint32 r /\ r_role r = role_consume /\ row_kind r = Some SkSint32 /\
             row_dec r = Some (WfVarint, DcZigZag32)).
Proof.
  split.
  - destruct (find_row fn_appendSint32) as [r|] eqn:E; [|vm_compute in E; discriminate E].
    exists r. split; [apply find_row_named; exact E|]. vm_compute in E. inversion E. vm_compute. repeat split.
  - destruct (find_row fn_consumeSint32) as [r|] eqn:E; [|vm_compute in E; discriminate E].
    exists r. split; [apply find_row_named; exact E|]. vm_compute in E. inversion E. vm_compute. repeat split.
Qed.
Example C03_example_codecgen_sem :
  enc_sem WfVarint EcZigZag (SZ (-1)) = Some (WVarint 1) /\ dec_sem WfVarint DcZigZag32 (WVarint 1) = Some (SZ (-1)).
Proof. vm_compute. split; reflexivity. Qed.
