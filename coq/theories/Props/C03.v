(* C03 — Binary Marshal/Unmarshal round-trips every message.
   Statements only; each closed by [exact] of a lemma proved in Msg/MsgRoundP.v.

   Model: Msg/MsgSchema.v (schema tables), Msg/MsgValue.v (canonical values, scalar codec),
   Msg/MsgEnc.v (deterministic encoder in order.LegacyFieldOrder), Msg/MsgDec.v (the merging
   decoder: [slow = false] the table-driven path of internal/impl, [slow = true] the reflection
   path of package proto), Msg/MsgValid.v (the decidable predicate [msg_valid]).

   Full statement (DESIGN.md section 7, C03):
     forall slow S limit tid v, valid slow S limit tid v = true ->
       decode slow S limit tid (encode S tid v) = Ok v
   i.e. identity of canonical values (stronger than proto.Equal), for every schema table S
   (recursive types allowed), both decoder paths, every recursion limit that the value fits in.

   Proved: exactly this statement.  [msg_valid] (see the comment in Msg/MsgValid.v) is the
   canonical-value predicate -- typed, in range, fields sorted by number, map entries sorted by
   key, no empty list/map, no implicit-presence zero, at most one member per oneof, depth within
   the limit (map entries cost one level, as in the code), unknown bytes a sequence of
   well-formed fields that the message type does not decode (unknown number, or known number
   with a rejected wire type; minimal tags on the table-driven path), all lengths below 2^64.
   It covers proto2/proto3/editions shapes (explicit, implicit, required presence), all 16 scalar
   kinds, packed and expanded lists, maps with scalar or message values, oneofs, groups, nested
   and recursive messages, extensions (ordinary fields of the schema table), unknown fields
   (also inside groups), and both decoder paths.

   Finding FB3 (reflection path only): there [msg_valid] additionally demands that every
   group-typed value passes the wire scanner ([msg_group_scans]), because that path reads a known
   group with protowire.ConsumeGroup -- whose nesting budget of 10000 is shared with unknown
   groups nested inside -- before decoding it.  The condition is necessary:
   [C03_reflection_groups_refuted] exhibits a message that is canonical for the table-driven
   path (and round-trips there) whose encoding the reflection path rejects; the same input is
   replayed on dynamicpb by the harness corpus (finding FB3 in KNOWN_FINDINGS.txt).  So for
   [slow = true] the theorem is the "_except_FB3" form, with [msg_group_scans] as the narrowest
   exclusion predicate; for [slow = false] it is the full statement
   ([C03_roundtrip_table_driven]).

   Not in this model: non-deterministic map order (the harness checks it on the
   implementation), lazy decoding (C17), MessageSet (C47). *)
From Coq Require Import List NArith ZArith.
From PB Require Import Base.PBytes Wire.WireModel.
From PB Require Import Msg.MsgSchema Msg.MsgValue Msg.MsgEnc Msg.MsgDec Msg.MsgValid Msg.MsgRoundP Msg.MsgExample.
Import ListNotations.
Open Scope N_scope.

Theorem C03_roundtrip :
  forall (slow : bool) (S : schema) (limit : nat) (tid : nat) (v : value),
    msg_valid slow S limit tid v = true ->
    msg_decode slow S limit tid (msg_encode S tid v) = DOk v.
Proof. exact msg_roundtrip. Qed.
Print Assumptions C03_roundtrip.

(* the table-driven path of generated messages: no condition beyond canonicity *)
Theorem C03_roundtrip_table_driven :
  forall (S : schema) (limit : nat) (tid : nat) (v : value),
    msg_valid false S limit tid v = true ->
    msg_decode false S limit tid (msg_encode S tid v) = DOk v.
Proof. exact (msg_roundtrip false). Qed.
Print Assumptions C03_roundtrip_table_driven.

(* FB3: canonical for the table-driven path, rejected by the reflection path *)
Theorem C03_reflection_groups_refuted :
  exists (S : schema) (v : value),
    msg_valid false S 2 0 v = true /\
    msg_decode false S 2 0 (msg_encode S 0 v) = DOk v /\
    msg_decode true S 2 0 (msg_encode S 0 v) = DErr DParse.
Proof. exact msg_fb3_witness. Qed.
Print Assumptions C03_reflection_groups_refuted.

(* Marshal is injective on canonical values: equal bytes, equal messages *)
Theorem C03_encode_injective :
  forall (slow : bool) (S : schema) (limit : nat) (tid : nat) (v1 v2 : value),
    msg_valid slow S limit tid v1 = true -> msg_valid slow S limit tid v2 = true ->
    msg_encode S tid v1 = msg_encode S tid v2 -> v1 = v2.
Proof. exact msg_encode_injective. Qed.
Print Assumptions C03_encode_injective.

(* non-vacuity: a message using scalars of many kinds, packed and expanded lists, two maps,
   a nested recursive sub-message, a group list, a oneof member, an extension and unknown
   fields is valid at depth 3 (not at depth 2), and its round trip computes *)
Example C03_example_valid :
  msg_valid false ex_schema 3 0 ex_msg = true /\ msg_valid false ex_schema 2 0 ex_msg = false.
Proof. vm_compute. split; reflexivity. Qed.
Example C03_example_roundtrip :
  msg_decode false ex_schema 3 0 (msg_encode ex_schema 0 ex_msg) = DOk ex_msg.
Proof. vm_compute. reflexivity. Qed.
(* the depth bound is sharp: one level less and the decoder reports the recursion limit *)
Example C03_example_depth :
  msg_decode false ex_schema 2 0 (msg_encode ex_schema 0 ex_msg) = DErr DDepth.
Proof. vm_compute. reflexivity. Qed.
