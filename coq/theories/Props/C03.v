(* C03 — Binary Marshal/Unmarshal round-trips every message.
   Statements only; each closed by [exact] of a lemma proved in Msg/MsgRoundP.v.

   Model: Msg/MsgSchema.v (schema tables), Msg/MsgValue.v (canonical values, scalar codec),
   Msg/MsgEnc.v (deterministic encoder in order.LegacyFieldOrder), Msg/MsgDec.v (the merging
   decoder: [slow = false] the table-driven path of internal/impl, [slow = true] the reflection
   path of package proto), Msg/MsgValid.v (the decidable predicate [msg_valid]).

   Full statement (DESIGN.md section 7, C03):
     forall slow S limit tid v, valid slow S limit tid v = true ->
       decode slow S limit tid (encode S tid v) = Ok v
   i.e. identity of canonical values (stronger than proto.Equal), for every schema table S
   (recursive types allowed), both decoder paths, every recursion limit that the value fits in.

   Proved: exactly this statement, where [msg_valid] (see the comment in Msg/MsgValid.v) is the
   canonical-value predicate -- typed, in range, fields sorted by number, map entries sorted by
   key, no empty list/map, no implicit-presence zero, at most one member per oneof, depth within
   the limit (map entries cost one level, as in the code), unknown bytes a sequence of
   well-formed fields that the message type does not decode (unknown number, or known number
   with a rejected wire type; minimal tags on the table-driven path), all lengths below 2^64 --
   with one restriction, which makes this a _partial theorem:
     [slow_groups]  on the reflection path ([slow] = true) group-typed fields (GROUP / DELIMITED)
                    are excluded: that path first scans the group with protowire.ConsumeGroup,
                    which needs the wire-scanner completeness theorem for encoder output.
                    (On the table-driven path groups are covered, including unknown fields
                    inside groups.)
   Everything else of the property text is covered: proto2/proto3/editions shapes (explicit,
   implicit, required presence), all 16 scalar kinds, packed and expanded lists, maps with
   scalar or message values, oneofs, nested and recursive messages, extensions (ordinary
   fields of the schema table), unknown fields, both decoder paths.  Non-deterministic map
   order is outside this model (the harness checks it on the implementation). *)
From Coq Require Import List NArith ZArith.
From PB Require Import Base.PBytes Wire.WireModel.
From PB Require Import Msg.MsgSchema Msg.MsgValue Msg.MsgEnc Msg.MsgDec Msg.MsgValid Msg.MsgRoundP Msg.MsgExample.
Import ListNotations.
Open Scope N_scope.

Theorem C03_roundtrip_partial :
  forall (slow : bool) (S : schema) (limit : nat) (tid : nat) (v : value),
    msg_valid slow S limit tid v = true ->
    msg_decode slow S limit tid (msg_encode S tid v) = DOk v.
Proof. exact msg_roundtrip. Qed.
Print Assumptions C03_roundtrip_partial.

(* Marshal is injective on canonical values: equal bytes, equal messages *)
Theorem C03_encode_injective :
  forall (slow : bool) (S : schema) (limit : nat) (tid : nat) (v1 v2 : value),
    msg_valid slow S limit tid v1 = true -> msg_valid slow S limit tid v2 = true ->
    msg_encode S tid v1 = msg_encode S tid v2 -> v1 = v2.
Proof. exact msg_encode_injective. Qed.
Print Assumptions C03_encode_injective.

(* non-vacuity: a message using scalars of many kinds, packed and expanded lists, two maps,
   a nested recursive sub-message, a group list, a oneof member, an extension and unknown
   fields is valid at depth 3 (not at depth 2), and its round trip computes *)
Example C03_example_valid :
  msg_valid false ex_schema 3 0 ex_msg = true /\ msg_valid false ex_schema 2 0 ex_msg = false.
Proof. vm_compute. split; reflexivity. Qed.
Example C03_example_roundtrip :
  msg_decode false ex_schema 3 0 (msg_encode ex_schema 0 ex_msg) = DOk ex_msg.
Proof. vm_compute. reflexivity. Qed.
(* the depth bound is sharp: one level less and the decoder reports the recursion limit *)
Example C03_example_depth :
  msg_decode false ex_schema 2 0 (msg_encode ex_schema 0 ex_msg) = DErr DDepth.
Proof. vm_compute. reflexivity. Qed.
