(* C13 — UTF-8 validation is enforced exactly where required.
   Statements only; each closed by [exact] of a lemma proved in Base/Utf8ValidP.v or
   Msg/Utf8EnforceP.v. *)
From Coq Require Import List NArith Bool.
From PB Require Import Base.PBytes Base.Utf8Valid Base.Utf8ValidP Msg.Utf8EnforceModel Msg.Utf8EnforceP.
From PB Require Gen.CoderTable Msg.Utf8CoderTableP.
Import ListNotations.

(* Go's utf8.Valid (first-byte table, accept ranges, 8-byte ASCII fast path) accepts exactly
   the concatenations of shortest-form encodings of Unicode scalar values — every byte list *)
Theorem C13_utf8_valid_spec : forall bs, utf8_valid bs = true <-> is_utf8 bs.
Proof. exact utf8_valid_spec. Qed.
Print Assumptions C13_utf8_valid_spec.
Example C13_utf8_valid_spec_ex :
  utf8_valid [x61; xc3; xa9; xe2; x82; xac; xf0; x9f; x98; x80] = true /\
  utf8_valid [xed; xa0; x80] = false /\ utf8_valid [xc0; xaf] = false /\ utf8_valid [xf4; x90; x80; x80] = false.
Proof. vm_compute. auto. Qed.

(* the validity test used by the JSON and text lexers/encoders (iterate utf8.DecodeRune and
   fail on (RuneError, 1)) is the same predicate *)
Theorem C13_decode_loop_is_valid : forall bs, utf8_valid_dec bs = utf8_valid bs.
Proof. exact utf8_valid_dec_eq. Qed.
Print Assumptions C13_decode_loop_is_valid.

(* one iteration of utf8.Valid's loop is one utf8.DecodeRune step *)
Theorem C13_valid_loop_decode : forall b0 rest,
  valid_loop (b0 :: rest) =
  if decode_bad (decode_rune (b0 :: rest)) then false
  else valid_loop (skipn (snd (decode_rune (b0 :: rest))) (b0 :: rest)).
Proof. exact valid_loop_decode. Qed.
Print Assumptions C13_valid_loop_decode.

(* Full statement (refuted by the faithful model, findings FL1 and FL2):
     forall c p e bs, declared c p e = true -> ~ is_utf8 bs -> verdict_of c KString p e bs = Reject
   i.e. every codec rejects ill-formed strings in every string position whose descriptor is validated. *)
Theorem C13_enforced_positions_reject_refuted :
  exists c p e bs, declared c p e = true /\ ~ is_utf8 bs /\ verdict_of c KString p e bs <> Reject.
Proof. exact enforced_positions_reject_refuted. Qed.
Print Assumptions C13_enforced_positions_reject_refuted.
Theorem C13_enforced_positions_reject_refuted_FL2 :
  exists bs, declared TextUnmarshalEsc PAnyTypeUrl {| e_self := true; e_map := true |} = true /\ ~ is_utf8 bs /\
             verdict_of TextUnmarshalEsc KString PAnyTypeUrl {| e_self := true; e_map := true |} bs <> Reject.
Proof. exact enforced_positions_reject_refuted_FL2. Qed.
Print Assumptions C13_enforced_positions_reject_refuted_FL2.

(* every codec, every string position outside the two recorded exclusions:
   validated and ill-formed -> rejected *)
Theorem C13_enforced_positions_reject_except_FL1_FL2 : forall c p e bs,
  excl_FL1 c p = false -> excl_FL2 c p = false ->
  declared c p e = true -> ~ is_utf8 bs -> verdict_of c KString p e bs = Reject.
Proof. exact enforced_positions_reject_except. Qed.
Print Assumptions C13_enforced_positions_reject_except_FL1_FL2.
Example C13_enforced_positions_reject_except_ex :
  excl_FL1 BinUnmarshalFast PMapValue = false /\ excl_FL2 BinUnmarshalFast PMapValue = false /\
  declared BinUnmarshalFast PMapValue {| e_self := true; e_map := true |} = true /\ ~ is_utf8 [xff].
Proof. repeat split. rewrite <- utf8_valid_spec. vm_compute. discriminate. Qed.

(* in terms of the bit the code acts on *)
Theorem C13_consulted_reject : forall c p e bs,
  consulted c p e = true -> ~ is_utf8 bs -> verdict_of c KString p e bs = Reject.
Proof. exact enforced_positions_reject. Qed.
Print Assumptions C13_consulted_reject.
Example C13_consulted_reject_ex :
  consulted Validator PExtensionList {| e_self := true; e_map := true |} = true.
Proof. reflexivity. Qed.

(* every codec, every position, string or bytes: well-formed UTF-8 is accepted and delivered unchanged *)
Theorem C13_enforced_positions_accept : forall c k p e bs,
  is_utf8 bs -> verdict_of c k p e bs = Accept bs.
Proof. exact valid_accepted. Qed.
Print Assumptions C13_enforced_positions_accept.
Example C13_enforced_positions_accept_ex : is_utf8 [xc3; xa9].
Proof. apply utf8_valid_spec. reflexivity. Qed.

(* binary codecs, validator, prototext: rejection happens exactly when enforced and ill-formed;
   otherwise the bytes are delivered unchanged *)
Theorem C13_string_verdict_exact : forall c p e bs,
  passthrough_codec c = true ->
  (verdict_of c KString p e bs = Reject <-> consulted c p e = true /\ ~ is_utf8 bs) /\
  (verdict_of c KString p e bs <> Reject -> verdict_of c KString p e bs = Accept bs).
Proof. exact string_verdict_exact. Qed.
Print Assumptions C13_string_verdict_exact.
Example C13_string_verdict_exact_ex : passthrough_codec TextUnmarshalEsc = true.
Proof. reflexivity. Qed.

Theorem C13_nonenforced_passthrough : forall c p e bs,
  passthrough_codec c = true -> consulted c p e = false -> verdict_of c KString p e bs = Accept bs.
Proof. exact nonenforced_passthrough. Qed.
Print Assumptions C13_nonenforced_passthrough.
Example C13_nonenforced_passthrough_ex :
  passthrough_codec BinMarshalSlow = true /\ consulted BinMarshalSlow POneof {| e_self := false; e_map := false |} = false.
Proof. auto. Qed.

(* bytes fields are never validated (raw non-UTF-8 bytes inside a text-format literal are a lexical
   error of internal/encoding/text for every field kind; the text encoder never produces them) *)
Theorem C13_bytes_passthrough : forall c p e bs,
  c <> TextUnmarshalRaw -> verdict_of c KBytes p e bs = Accept bs.
Proof. exact bytes_passthrough. Qed.
Print Assumptions C13_bytes_passthrough.
Example C13_bytes_passthrough_ex : Validator <> TextUnmarshalRaw.
Proof. discriminate. Qed.

(* protojson goes beyond the property: ill-formed strings are refused in every string field *)
Theorem C13_json_rejects_all_invalid : forall p e bs,
  ~ is_utf8 bs ->
  verdict_of JsonMarshal KString p e bs = Reject /\ verdict_of JsonUnmarshal KString p e bs = Reject.
Proof. exact json_rejects_all_invalid. Qed.
Print Assumptions C13_json_rejects_all_invalid.

(* the validator (lazy decoding) and the eager table-driven decoder agree when a map field and the
   fields of its synthetic entry carry the same enforcement bit, as protoc guarantees
   (not at repeated string extensions: FL1) *)
Theorem C13_validator_agrees : forall k p e bs,
  e_map e = e_self e -> p <> PExtensionList ->
  verdict_of Validator k p e bs = verdict_of BinUnmarshalFast k p e bs.
Proof. exact validator_agrees. Qed.
Print Assumptions C13_validator_agrees.
Example C13_validator_agrees_ex : e_map {| e_self := true; e_map := true |} = e_self {| e_self := true; e_map := true |}.
Proof. reflexivity. Qed.

(* strs.EnforceUTF8 as a complete decision table *)
Theorem C13_enforce_table : forall legacy fd,
  enforce_utf8 legacy fd =
  match fd_has_method fd, legacy, fd_syntax fd with
  | true, _, Editions => fd_validated fd
  | true, true, _ => fd_validated fd
  | _, _, Proto3 => true
  | _, _, _ => false
  end.
Proof. exact enforce_table. Qed.
Print Assumptions C13_enforce_table.

(* ---------------------------------------------------------------- Tier T: the decision table of
   internal/impl/codec_tables.go (fieldCoder, encoderFuncsForValue), regenerated from the source on
   every run by srcmodel_codertable into Gen/CoderTable.v. *)
Module CT.
Import Coq.Strings.String PB.Gen.CoderTable PB.Msg.Utf8CoderTableP.
Open Scope string_scope.

(* the extractor classified every row and every coder variable *)
Theorem C13_coder_table_classified : classified = true.
Proof. exact classified_true. Qed.
Print Assumptions C13_coder_table_classified.

(* Full statement (refuted, FL1): for every row whose kind is String and either value of
   strs.EnforceUTF8(fd), the selected coder is a ...ValidateUTF8 coder iff EnforceUTF8, and its marshal
   and unmarshal functions call utf8.Valid/ValidString iff EnforceUTF8. *)
Theorem C13_validate_coder_refuted_FL1 :
  exists r c, In r table /\ r_kind r = "String" /\ excl_FL1_row r = true /\
    select table (r_fn r) (r_cls r) "String" (r_gotype r) true = Some c /\
    validating_name c = false /\ funcs_validate c = Some (false, false).
Proof. exact validate_coder_refuted_FL1. Qed.
Print Assumptions C13_validate_coder_refuted_FL1.

Theorem C13_validate_coder_iff_enforce_except_FL1 : forall r enf,
  In r table -> r_kind r = "String" -> excl_FL1_row r = false ->
  exists c, select table (r_fn r) (r_cls r) "String" (r_gotype r) enf = Some c /\
            validating_name c = enf /\ funcs_validate c = Some (enf, enf).
Proof. exact validate_coder_iff_enforce_except_FL1. Qed.
Print Assumptions C13_validate_coder_iff_enforce_except_FL1.
Example C13_validate_coder_iff_enforce_except_FL1_ex :
  select table "fieldCoder" "NoZero" "String" "String" true = Some "coderStringNoZeroValidateUTF8" /\
  select table "fieldCoder" "NoZero" "String" "String" false = Some "coderStringNoZero" /\
  select table "encoderFuncsForValue" "Value" "String" "Any" true = Some "coderStringValueValidateUTF8".
Proof. vm_compute. repeat split. Qed.

(* the exclusion predicate is exact: every excluded String row really selects a non-validating coder *)
Theorem C13_excl_FL1_rows_all_fail : forall r,
  In r table -> r_kind r = "String" -> excl_FL1_row r = true -> check_row r true = false.
Proof. exact excl_FL1_rows_all_fail. Qed.
Print Assumptions C13_excl_FL1_rows_all_fail.

Theorem C13_bytes_rows_never_validate : forall r,
  In r table -> r_kind r = "Bytes" ->
  validating_name (r_coder r) = false /\ funcs_validate (r_coder r) = Some (false, false).
Proof. exact bytes_rows_never_validate. Qed.
Print Assumptions C13_bytes_rows_never_validate.
End CT.
