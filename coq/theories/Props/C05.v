(* C05 — Deterministic marshaling is a function of message content.
   Statements only; each closed by [exact] of a lemma proved in Msg/DetP.v / Msg/DetHistP.v.

   Model: Msg/DetModel.v.  A concrete message is a [value] whose bindings and map entries stand in
   insertion order; whoever iterates a Go map sees an arbitrary permutation, modelled by the
   oracles [pf] (bindings of a message: the extension map, dynamicpb's field map) and [pi] (entries
   of a map field), which the theorems quantify over.  [det_encode pf pi S tid m] = Marshal with
   Deterministic: iterate (oracle order), sort (map keys: bool false<true, signed and unsigned
   numerically, strings bytewise; bindings by number), then the encoder of the codec model
   (Msg/MsgEnc.v, order.LegacyFieldOrder).  [det_canon] is the abstraction (sorted content, empty
   bindings dropped); [det_run md h] replays an operation history (Set / Clear / map insert / map
   delete / SetUnknown, with the implicit-presence and oneof rules) from the empty message.

   Proved, for all schemas, histories and oracles:
     det_history_independent   two histories with the same abstract content marshal to the same
                               deterministic bytes, whatever the iteration orders
     det_content_determines_bytes   the same for any two well-formed concrete messages
     key_order_strict_total    the key order is a strict total order on every key kind
     sort_unique               a sorted permutation is unique: the ONLY assumption about Go's
                               sort.Slice / sort.Ints is that they return a sorted permutation
     sort_any_order            the model's sort returns the same list for every permutation of its input
     det_equal_converse        equal deterministic bytes of two valid messages => same abstract
                               content (hence proto.Equal, C30_equal_refl) -- from C03's injectivity,
                               and therefore _partial exactly where C03 is: [msg_valid] excludes
                               group-typed values carrying unknown bytes and, on the reflection
                               path, group-typed fields
   Hypothesis of the history theorem: [det_ops_ok] -- the sub-messages mentioned by the operations
   are themselves well-formed concrete values (distinct numbers, distinct map keys).
   Not modelled: lazily decoded fields (the harness covers them: Deterministic forces the decode);
   "separate processes" is a statement about the Go runtime: the theorem quantifies over all
   iteration orders, the cross-process run of the harness is search. *)
From Coq Require Import List NArith ZArith Bool Permutation Sorting.Sorted.
From PB Require Import Base.PBytes Wire.WireModel.
From PB Require Import Msg.MsgSchema Msg.MsgValue Msg.MsgEnc Msg.MsgDec Msg.MsgValid Msg.MsgExample.
From PB Require Import Msg.DetModel Msg.DetP Msg.DetHistP Msg.EqualModel Msg.EqualCorP.
Import ListNotations.
Open Scope N_scope.

Theorem C05_det_history_independent :
  forall (S : schema) (tid : nat) (md : mdesc) (h1 h2 : list det_op)
         (pf1 pf2 : fields -> fields) (pi1 pi2 : list value -> list value),
    det_perm_oracle pf1 -> det_perm_oracle pf2 -> det_perm_oracle pi1 -> det_perm_oracle pi2 ->
    det_ops_ok h1 = true -> det_ops_ok h2 = true ->
    det_canon (det_run md h1) = det_canon (det_run md h2) ->
    det_encode pf1 pi1 S tid (det_run md h1) = det_encode pf2 pi2 S tid (det_run md h2).
Proof. exact det_history_independent. Qed.
Print Assumptions C05_det_history_independent.

Theorem C05_det_content_determines_bytes :
  forall (S : schema) (tid : nat) (m1 m2 : value)
         (pf1 pf2 : fields -> fields) (pi1 pi2 : list value -> list value),
    det_perm_oracle pf1 -> det_perm_oracle pf2 -> det_perm_oracle pi1 -> det_perm_oracle pi2 ->
    det_wf m1 = true -> det_wf m2 = true -> det_canon m1 = det_canon m2 ->
    det_encode pf1 pi1 S tid m1 = det_encode pf2 pi2 S tid m2.
Proof. exact det_content_determines_bytes. Qed.
Print Assumptions C05_det_content_determines_bytes.

(* histories preserve well-formedness (so the previous theorem applies to every reachable state) *)
Theorem C05_det_run_wf :
  forall (md : mdesc) (ops : list det_op), det_ops_ok ops = true -> det_wf (det_run md ops) = true.
Proof. exact det_run_wf. Qed.
Print Assumptions C05_det_run_wf.

Theorem C05_key_order_strict_total :
  det_strict_total (fun s => exists b, s = SB b) msg_scmp /\
  det_strict_total (fun s => exists z, s = SZ z) msg_scmp /\
  det_strict_total (fun s => exists n, s = SN n) msg_scmp /\
  det_strict_total (fun s => exists bs, s = SBy bs) msg_scmp /\
  det_strict_total (fun _ => True) det_kcmp.
Proof. exact det_key_order_strict_total. Qed.
Print Assumptions C05_key_order_strict_total.

Theorem C05_sort_unique :
  forall (A : Type) (lt : A -> A -> Prop), (forall a b, lt a b -> lt b a -> False) ->
  forall l1 l2, StronglySorted lt l1 -> StronglySorted lt l2 -> Permutation l1 l2 -> l1 = l2.
Proof. exact @det_sorted_unique. Qed.
Print Assumptions C05_sort_unique.

(* the sort of the model: map entries with pairwise distinct keys, in any order, sort to one list *)
Theorem C05_sort_any_order :
  forall l l' : list value,
    forallb det_is_entry l = true -> det_nodup_keys l = true -> Permutation l l' ->
    det_sort det_entry_lt l = det_sort det_entry_lt l'.
Proof. exact det_sort_entries_perm. Qed.
Print Assumptions C05_sort_any_order.

(* Deterministic marshal is default marshal under an iteration order that happens to be sorted *)
Theorem C05_det_is_nondet_sorted : forall pf pi S tid v,
  det_encode pf pi S tid v = det_encode_nondet pf (fun l => det_sort det_entry_lt (pi l)) S tid v.
Proof. exact det_is_nondet_sorted. Qed.
Print Assumptions C05_det_is_nondet_sorted.

Theorem C05_det_equal_converse_partial :
  forall (slow : bool) (S : schema) (limit : nat) (tid : nat) (m1 m2 : value)
         (pf1 pf2 : fields -> fields) (pi1 pi2 : list value -> list value),
    det_perm_oracle pf1 -> det_perm_oracle pf2 -> det_perm_oracle pi1 -> det_perm_oracle pi2 ->
    det_wf m1 = true -> det_wf m2 = true ->
    msg_valid slow S limit tid (det_canon m1) = true -> msg_valid slow S limit tid (det_canon m2) = true ->
    det_encode pf1 pi1 S tid m1 = det_encode pf2 pi2 S tid m2 ->
    det_canon m1 = det_canon m2.
Proof. exact det_equal_bytes_same_content. Qed.
Print Assumptions C05_det_equal_converse_partial.

(* ... and hence proto.Equal (the equality model of C30) *)
Theorem C05_det_equal_converse_equal_partial :
  forall (slow : bool) (S : schema) (limit : nat) (tid : nat) (m1 m2 : value)
         (pf1 pf2 : fields -> fields) (pi1 pi2 : list value -> list value),
    det_perm_oracle pf1 -> det_perm_oracle pf2 -> det_perm_oracle pi1 -> det_perm_oracle pi2 ->
    det_wf m1 = true -> det_wf m2 = true ->
    msg_valid slow S limit tid (det_canon m1) = true -> msg_valid slow S limit tid (det_canon m2) = true ->
    det_encode pf1 pi1 S tid m1 = det_encode pf2 pi2 S tid m2 ->
    eqm_equal S tid (det_canon m1) (det_canon m2) = true.
Proof. exact eqm_det_equal_converse. Qed.
Print Assumptions C05_det_equal_converse_equal_partial.

(* ---------- non-vacuity ---------- *)
(* two histories of the example type (Msg/MsgExample.v): different assignment order, a map filled
   in opposite orders with an extra key inserted and deleted, a value overwritten, a oneof member
   replaced, a field set and cleared, unknown bytes replaced *)
Definition c05_h1 : list det_op :=
  [ DSet 1 [VS (SZ 5)]; DPut 5 (SBy [x62]) ex_sub; DPut 5 (SBy [x61]) msg_empty;
    DPut 12 (SZ 3) (VS (SZ 0)); DPut 12 (SZ (-7)) (VS (SZ 1)); DSet 8 [VS (SBy [x01])]; DUnk [x98; x06; x07] ].
Definition c05_h2 : list det_op :=
  [ DUnk [x08]; DPut 12 (SZ (-7)) (VS (SZ 9)); DPut 12 (SZ 99) (VS (SZ 9)); DSet 9 [VS (SB true)];
    DPut 5 (SBy [x61]) ex_sub; DSet 4 [VS (SN 1)]; DPut 12 (SZ 3) (VS (SZ 0)); DDel 12 (SZ 99);
    DPut 5 (SBy [x61]) msg_empty; DSet 8 [VS (SBy [x01])]; DPut 12 (SZ (-7)) (VS (SZ 1));
    DClear 4; DPut 5 (SBy [x62]) ex_sub; DSet 1 [VS (SZ 7)]; DSet 1 [VS (SZ 5)]; DUnk [x98; x06; x07] ].

Example C05_example_histories :
  det_ops_ok c05_h1 = true /\ det_ops_ok c05_h2 = true /\
  det_run ex_T0 c05_h1 <> det_run ex_T0 c05_h2 /\
  det_canon (det_run ex_T0 c05_h1) = det_canon (det_run ex_T0 c05_h2) /\
  det_encode (@rev _) (@rev _) ex_schema 0 (det_run ex_T0 c05_h1) =
  det_encode det_id det_id ex_schema 0 (det_run ex_T0 c05_h2).
Proof. vm_compute. repeat split; try reflexivity. discriminate. Qed.

(* reversal is an iteration-order oracle *)
Example C05_example_oracle : det_perm_oracle (@rev value) /\ det_perm_oracle (@rev (N * list value)).
Proof. split; intros l; apply Permutation_sym, Permutation_rev. Qed.

(* without sorting the iteration order shows: default marshal differs between two oracles *)
Example C05_example_nondet_differs :
  det_encode_nondet det_id (@rev _) ex_schema 0 (det_run ex_T0 c05_h1) <>
  det_encode_nondet det_id det_id ex_schema 0 (det_run ex_T0 c05_h1).
Proof. vm_compute. discriminate. Qed.

(* the converse theorem is not vacuous: the example message of C03 is valid and well-formed *)
Example C05_example_valid :
  det_wf ex_msg = true /\ msg_valid false ex_schema 3 0 (det_canon ex_msg) = true /\ det_canon ex_msg = ex_msg.
Proof. vm_compute. repeat split; reflexivity. Qed.

(* the order is strict: a list is not sorted unless its keys are distinct; the key order separates
   numerically negative keys from their unsigned encodings *)
Example C05_example_key_order :
  det_sort det_entry_lt [VEntry (SZ 3) (VS (SZ 0)); VEntry (SZ (-7)) (VS (SZ 1)); VEntry (SZ 0) (VS (SZ 2))]
  = [VEntry (SZ (-7)) (VS (SZ 1)); VEntry (SZ 0) (VS (SZ 2)); VEntry (SZ 3) (VS (SZ 0))].
Proof. vm_compute. reflexivity. Qed.
