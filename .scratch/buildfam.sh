#!/bin/bash
# usage: [VERIF_REPO=/some/repo/copy] .scratch/buildfam.sh <outname> <extra go files...>
# builds a private harness binary .cache/h_<outname> from harness/cmd/h/main.go + common_msg.go + the given files
# (compiled inside /repo's module through -overlay; nothing is written to /repo)
set -e
cd /work/w2e
export REPO=${VERIF_REPO:-/repo}
name=$1; shift
ov=.cache/overlay_$name.json
python3 - "$name" "$@" > $ov <<'PY'
import sys, json, os
name = sys.argv[1]
files = ["harness/cmd/h/main.go", "harness/cmd/h/common_msg.go"] + sys.argv[2:]
rep = {}
for f in files:
    rep[os.environ["REPO"] + "/internal/verifh_%s/cmd/h/%s" % (name, os.path.basename(f))] = os.path.abspath(f)
print(json.dumps({"Replace": rep}))
PY
export GOLANG_PROTOBUF_REGISTRATION_CONFLICT=ignore GOFLAGS=-mod=mod GOPROXY=off GOSUMDB=off GOTOOLCHAIN=local GOCACHE=/work/w2e/.cache/go-build CGO_ENABLED=0
cd $REPO && go build -overlay /work/w2e/$ov -tags verif -o /work/w2e/.cache/h_$name ./internal/verifh_$name/cmd/h
echo built /work/w2e/.cache/h_$name
