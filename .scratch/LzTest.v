From Coq Require Import List NArith ZArith Bool.
From PB Require Import Base.PBytes Wire.WireModel Msg.MsgSchema Msg.MsgValue Msg.MsgEnc Msg.MsgDec Msg.ValidateMsgModel.
Require Import LazyModel.
Import ListNotations.
Open Scope N_scope.
Definition node : mdesc := [ mkF 99 (KMsg 0) COpt None false false true; mkF 1 (KS SkInt32) COpt None false false false ].
Definition S1 : schema := [node].
Definition f1 := [x9a; x06; x02; x08; x05; x98; x06; x07].
Eval vm_compute in lz_unmarshal S1 5 0 f1.
Eval vm_compute in lz_raw_of S1 5 0 f1.
Eval vm_compute in lz_value_of S1 5 0 f1.
Eval vm_compute in msg_decode false S1 5 0 f1.
Eval vm_compute in (match msg_decode false S1 5 0 f1 with DOk v => msg_encode S1 0 v | _ => [] end).
Eval vm_compute in lz_strict S1 5 0 f1.
