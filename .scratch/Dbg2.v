(* InitSoundP — the validator never reports a partial message as initialized:
     vm_validate S limit tid bs = (Valid, initialized = true, _)  and
     msg_decode false S limit tid bs = DOk v   imply   msg_check_init S tid v = true
   (Msg/ValidateMsgModel.v, Msg/MsgDec.v), for schema tables in which no member of a oneof
   shares its number with a required field.

   Invariant carried along the lockstep walk of validator and decoder:
     - every message value stored in the accumulator is fully initialized ([is_sub_ok]),
     - every required field whose bit the validator has set is present ([is_seen_ok]). *)
From Coq Require Import List Arith NArith ZArith Lia Bool.
From Coq Require Import ZifyBool ZifyNat ZifyN.
From PB Require Import Base.PBytes Wire.WireModel Wire.VarintP Wire.ScanP.
From PB Require Import Msg.MsgSchema Msg.MsgValue Msg.MsgUtf8 Msg.MsgDec Msg.ValidateMsgModel Msg.ValidateMsgP.
Ltac Zify.zify_post_hook ::= Z.div_mod_to_equations.
Import ListNotations.
Open Scope N_scope.

(* ---------- the association list ---------- *)
Lemma is_fget_fset_same fs k vs : msg_fget (msg_fset fs k vs) k = vs.
Proof.
  induction fs as [|[k0 v0] r IH]; cbn [msg_fset msg_fget].
  - now rewrite N.eqb_refl.
  - destruct (k <? k0) eqn:E1; [cbn [msg_fget]; now rewrite N.eqb_refl|].
    destruct (k =? k0) eqn:E2; cbn [msg_fget]; rewrite E2; [reflexivity|exact IH].
Qed.

Lemma is_fget_fset_other fs k vs n : n <> k -> msg_fget (msg_fset fs k vs) n = msg_fget fs n.
Proof.
  intros Hn. induction fs as [|[k0 v0] r IH]; cbn [msg_fset msg_fget].
  - replace (n =? k) with false by lia. reflexivity.
  - destruct (k <? k0) eqn:E1.
    + cbn [msg_fget]. replace (n =? k) with false by lia. reflexivity.
    + destruct (k =? k0) eqn:E2; cbn [msg_fget].
      * apply N.eqb_eq in E2. subst k0. replace (n =? k) with false by lia. reflexivity.
      * destruct (n =? k0); [reflexivity|exact IH].
Qed.

Lemma is_fget_fdel_other fs k n : n <> k -> msg_fget (msg_fdel fs k) n = msg_fget fs n.
Proof.
  intros Hn. induction fs as [|[k0 v0] r IH]; cbn [msg_fdel msg_fget]; [reflexivity|].
  destruct (k =? k0) eqn:E.
  - apply N.eqb_eq in E. subst k0. replace (n =? k) with false by lia. reflexivity.
  - cbn [msg_fget]. destruct (n =? k0); [reflexivity|exact IH].
Qed.

(* ---------- "every stored message value is initialized" ---------- *)
Definition is_chunk_ok (S : schema) (md : mdesc) (p : N * list value) : bool :=
  vm_ci_chunk (msg_check_init S) md p.
Definition is_sub_ok (S : schema) (md : mdesc) (fs : fields) : Prop :=
  forall p, In p fs -> is_chunk_ok S md p = true.

Lemma is_check_init_unfold S tid fs u :
  msg_check_init S tid (VMsg fs u) = true <->
  vm_req_present (nth tid S []) fs = true /\ is_sub_ok S (nth tid S []) fs.
Proof.
  cbn [msg_check_init]. rewrite andb_true_iff, forallb_forall. reflexivity.
Qed.

Lemma is_sub_ok_nil S md : is_sub_ok S md [].
Proof. intros p []. Qed.

Lemma is_sub_ok_fset S md fs k vs :
  is_sub_ok S md fs -> is_chunk_ok S md (k, vs) = true -> is_sub_ok S md (msg_fset fs k vs).
Proof.
  intros Hs Hc. induction fs as [|[k0 v0] r IH]; cbn [msg_fset].
  - intros p [<-|[]]. exact Hc.
  - assert (Hr : is_sub_ok S md r) by (intros p Hp; apply Hs; right; exact Hp).
    destruct (k <? k0).
    + intros p [<-|Hp]; [exact Hc|apply Hs; exact Hp].
    + destruct (k =? k0) eqn:E2.
      * apply N.eqb_eq in E2. subst k0. intros p [<-|Hp]; [exact Hc|apply Hr; exact Hp].
      * intros p [<-|Hp]; [apply Hs; left; reflexivity|apply IH; [exact Hr|exact Hp]].
Qed.

Lemma is_sub_ok_fdel S md fs k : is_sub_ok S md fs -> is_sub_ok S md (msg_fdel fs k).
Proof.
  intros Hs. induction fs as [|[k0 v0] r IH]; cbn [msg_fdel]; [exact Hs|].
  assert (Hr : is_sub_ok S md r) by (intros p Hp; apply Hs; right; exact Hp).
  destruct (k =? k0); [exact Hr|].
  intros p [<-|Hp]; [apply Hs; left; reflexivity|apply IH; [exact Hr|exact Hp]].
Qed.

Lemma is_sub_ok_clear_oneof S md md0 oi num fs :
  is_sub_ok S md fs -> is_sub_ok S md (msg_clear_oneof md0 oi num fs).
Proof.
  revert fs. induction md0 as [|fd r IH]; intros fs Hs; cbn [msg_clear_oneof]; [exact Hs|].
  apply IH. destruct (f_oneof fd) as [j|]; [|exact Hs].
  destruct ((j =? oi) && negb (f_num fd =? num)); [apply is_sub_ok_fdel; exact Hs|exact Hs].
Qed.

(* the values stored under a message-typed field are initialized *)
Lemma is_sub_ok_fget S md fs n fd t :
  is_sub_ok S md fs -> msg_find_field md n = Some fd ->
  (f_kind fd = KMsg t \/ f_kind fd = KGrp t) ->
  forallb (msg_check_init S t) (msg_fget fs n) = true.
Proof.
  intros Hs Hf Hk. induction fs as [|[k0 v0] r IH]; cbn [msg_fget]; [reflexivity|].
  destruct (n =? k0) eqn:E.
  - apply N.eqb_eq in E. subst k0.
    pose proof (Hs (n, v0) (or_introl eq_refl)) as Hc. unfold is_chunk_ok, vm_ci_chunk in Hc. cbn [fst snd] in Hc.
    rewrite Hf in Hc. destruct Hk as [Hk|Hk]; rewrite Hk in Hc; exact Hc.
  - apply IH. intros p Hp. apply Hs. right. exact Hp.
Qed.

Lemma is_chunk_ok_scalar S md n fd sk vs :
  msg_find_field md n = Some fd -> f_kind fd = KS sk -> is_chunk_ok S md (n, vs) = true.
Proof. intros Hf Hk. unfold is_chunk_ok, vm_ci_chunk. cbn [fst snd]. rewrite Hf, Hk. reflexivity. Qed.

Lemma is_chunk_ok_msg S md n fd t vs :
  msg_find_field md n = Some fd -> (f_kind fd = KMsg t \/ f_kind fd = KGrp t) ->
  forallb (msg_check_init S t) vs = true -> is_chunk_ok S md (n, vs) = true.
Proof.
  intros Hf Hk Hv. unfold is_chunk_ok, vm_ci_chunk. cbn [fst snd]. rewrite Hf.
  destruct Hk as [Hk|Hk]; rewrite Hk; exact Hv.
Qed.

(* ---------- presence of required fields ---------- *)
Definition is_present (fs : fields) (n : N) : Prop := msg_fget fs n <> [].

(* no member of a oneof shares its number with a required field *)
Definition is_md_ok (md : mdesc) : Prop :=
  forall fd fd', In fd md -> In fd' md -> vr_is_req fd = true -> f_oneof fd' <> None -> f_num fd <> f_num fd'.
Definition is_schema_ok (S : schema) : Prop := forall md, In md S -> is_md_ok md.

Lemma is_present_clear_oneof md0 oi num fs n :
  (forall fd', In fd' md0 -> f_oneof fd' <> None -> n <> f_num fd') ->
  is_present fs n -> is_present (msg_clear_oneof md0 oi num fs) n.
Proof.
  revert fs. induction md0 as [|fd r IH]; intros fs Hno Hp; cbn [msg_clear_oneof]; [exact Hp|].
  apply IH; [intros fd' Hin; apply Hno; right; exact Hin|].
  destruct (f_oneof fd) as [j|] eqn:Eo; [|exact Hp].
  destruct ((j =? oi) && negb (f_num fd =? num)); [|exact Hp].
  unfold is_present. rewrite is_fget_fdel_other; [exact Hp|].
  apply Hno; [left; reflexivity|congruence].
Qed.

Lemma is_find_field_num md n fd : msg_find_field md n = Some fd -> f_num fd = n.
Proof.
  induction md as [|f r IH]; cbn [msg_find_field]; [discriminate|].
  destruct (f_num f =? n) eqn:E; [intros H; inversion H; subst; apply N.eqb_eq; exact E|exact IH].
Qed.

(* ---------- the decoder's storing operations ---------- *)
Definition is_req_num (md : mdesc) (n : N) : Prop :=
  exists fd, In fd md /\ vr_is_req fd = true /\ f_num fd = n.

Section Store.
  Variable S : schema.
  Variable md : mdesc.
  Hypothesis Hmdok : is_md_ok md.

  Lemma is_req_not_oneof n fd' : is_req_num md n -> In fd' md -> f_oneof fd' <> None -> n <> f_num fd'.
  Proof. intros (fd & Hin & Hr & <-) Hin' Ho. eapply Hmdok; eauto. Qed.

  Lemma is_set_field_sub_ok fd v fs :
    is_sub_ok S md fs -> is_chunk_ok S md (f_num fd, [v]) = true -> is_sub_ok S md (msg_set_field md fd v fs).
  Proof.
    intros Hs Hc. unfold msg_set_field.
    set (fs1 := if match f_card fd, v with CImp, VS s => msg_scalar_is_zero s | _, _ => false end
                then msg_fdel fs (f_num fd) else msg_fset fs (f_num fd) [v]).
    assert (H1 : is_sub_ok S md fs1).
    { unfold fs1. destruct (match f_card fd, v with CImp, VS s => msg_scalar_is_zero s | _, _ => false end);
        [apply is_sub_ok_fdel; exact Hs|apply is_sub_ok_fset; assumption]. }
    destruct (f_oneof fd); [apply is_sub_ok_clear_oneof; exact H1|exact H1].
  Qed.

  Lemma is_set_field_present_other fd v fs n :
    is_req_num md n -> n <> f_num fd -> is_present fs n -> is_present (msg_set_field md fd v fs) n.
  Proof.
    intros Hr Hn Hp. unfold msg_set_field.
    set (fs1 := if match f_card fd, v with CImp, VS s => msg_scalar_is_zero s | _, _ => false end
                then msg_fdel fs (f_num fd) else msg_fset fs (f_num fd) [v]).
    assert (H1 : is_present fs1 n).
    { unfold fs1, is_present. destruct (match f_card fd, v with CImp, VS s => msg_scalar_is_zero s | _, _ => false end);
        [rewrite is_fget_fdel_other|rewrite is_fget_fset_other]; assumption. }
    destruct (f_oneof fd); [|exact H1].
    apply is_present_clear_oneof; [|exact H1]. intros fd' Hin Ho. eapply is_req_not_oneof; eauto.
  Qed.

  (* a required field that is stored is present afterwards *)
  Lemma is_set_field_present_self fd v fs :
    In fd md -> vr_is_req fd = true -> is_present (msg_set_field md fd v fs) (f_num fd).
  Proof.
    intros Hin Hr. unfold msg_set_field.
    assert (Hc : f_card fd = CReq) by (unfold vr_is_req in Hr; destruct (f_card fd); try discriminate; reflexivity).
    rewrite Hc.
    assert (Ho : f_oneof fd = None).
    { destruct (f_oneof fd) eqn:E; [|reflexivity]. exfalso.
      apply (Hmdok fd fd Hin Hin Hr); [congruence|reflexivity]. }
    rewrite Ho. unfold is_present. rewrite is_fget_fset_same. discriminate.
  Qed.

  Lemma is_append_sub_ok fd vs fs :
    is_sub_ok S md fs -> is_chunk_ok S md (f_num fd, msg_fget fs (f_num fd) ++ vs) = true ->
    is_sub_ok S md (msg_append_field fd vs fs).
  Proof.
    intros Hs Hc. unfold msg_append_field. destruct vs; [exact Hs|]. apply is_sub_ok_fset; assumption.
  Qed.

  Lemma is_append_present_other fd vs fs n :
    n <> f_num fd -> is_present fs n -> is_present (msg_append_field fd vs fs) n.
  Proof.
    intros Hn Hp. unfold msg_append_field. destruct vs; [exact Hp|].
    unfold is_present. rewrite is_fget_fset_other; assumption.
  Qed.

  (* the old value a singular sub-message is merged into *)
  Lemma is_old_sub_ok fd fs num t :
    msg_find_field md num = Some fd -> (f_kind fd = KMsg t \/ f_kind fd = KGrp t) ->
    is_sub_ok S md fs -> is_sub_ok S (nth t S []) (fst (msg_old_sub fd fs)).
  Proof.
    intros Hf Hk Hs. unfold msg_old_sub. destruct (card_repeated (f_card fd)); [apply is_sub_ok_nil|].
    pose proof (is_find_field_num _ _ _ Hf) as Hn. rewrite Hn.
    pose proof (is_sub_ok_fget S md fs num fd t Hs Hf Hk) as Hv.
    destruct (msg_fget fs num) as [|v r]; [apply is_sub_ok_nil|].
    cbn [forallb] in Hv. apply andb_prop in Hv. destruct Hv as [Hv _].
    destruct v as [s|fs' u|k v']; cbn [msg_macc_of fst]; try apply is_sub_ok_nil.
    apply is_check_init_unfold in Hv. tauto.
  Qed.

  (* storing a freshly decoded, initialized sub-message *)
  Lemma is_store_sub fd num t m fs :
    msg_find_field md num = Some fd -> (f_kind fd = KMsg t \/ f_kind fd = KGrp t) ->
    msg_check_init S t (VMsg (fst m) (snd m)) = true ->
    is_sub_ok S md fs ->
    is_sub_ok S md (msg_store_sub md fd m fs) /\
    (forall n, is_req_num md n -> is_present fs n -> is_present (msg_store_sub md fd m fs) n) /\
    (vr_is_req fd = true -> is_present (msg_store_sub md fd m fs) num).
  Proof.
    intros Hf Hk Hci Hs. pose proof (is_find_field_num _ _ _ Hf) as Hn.
    pose proof (vp_find_field_in _ _ _ Hf) as Hin.
    unfold msg_store_sub. cbv zeta. destruct (card_repeated (f_card fd)) eqn:Er.
    - split; [|split].
      + apply is_append_sub_ok; [exact Hs|]. rewrite Hn. eapply is_chunk_ok_msg; eauto.
        rewrite forallb_app. rewrite (is_sub_ok_fget S md fs num fd t Hs Hf Hk). cbn [forallb]. Show. rewrite Hci. reflexivity.
      + intros n Hr Hp. destruct (N.eq_dec n (f_num fd)) as [->|Hne].
        * unfold msg_append_field, is_present. rewrite is_fget_fset_same. destruct (msg_fget fs (f_num fd)); discriminate.
        * apply is_append_present_other; assumption.
      + intros Hr. unfold vr_is_req in Hr. destruct (f_card fd); try discriminate; cbn in Er; discriminate.
    - split; [|split].
      + apply is_set_field_sub_ok; [exact Hs|]. rewrite Hn. eapply is_chunk_ok_msg; eauto.
        cbn [forallb]. rewrite Hci. reflexivity.
      + intros n Hr Hp. destruct (N.eq_dec n (f_num fd)) as [->|Hne].
        * destruct Hr as (fd0 & Hin0 & Hr0 & En).
          (* the stored field itself: it is set *)
          unfold msg_set_field. cbn match.
          assert (Hnd : match f_card fd, VMsg (fst m) (snd m) with CImp, VS s => msg_scalar_is_zero s | _, _ => false end = false)
            by (destruct (f_card fd); reflexivity).
          rewrite Hnd.
          destruct (f_oneof fd) as [oi|] eqn:Eo.
          -- exfalso. apply (Hmdok fd0 fd Hin0 Hin Hr0); [congruence|exact En].
          -- unfold is_present. rewrite is_fget_fset_same. discriminate.
        * apply is_set_field_present_other; assumption.
      + intros Hr. rewrite <- Hn. apply is_set_field_present_self; assumption.
  Qed.
End Store.
