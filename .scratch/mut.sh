#!/bin/bash
# usage: mut.sh <prop> <file> <python-replace-old> <new>
prop=$1; file=$2; old=$3; new=$4
R=/tmp/wpd/repo
python3 - "$R/$file" "$old" "$new" <<'PY'
import sys
p,old,new=sys.argv[1:4]
s=open(p).read()
assert s.count(old)>=1, "pattern not found"
s=s.replace(old,new,1)
open(p,'w').write(s)
PY
[ $? -eq 0 ] || { echo "PATTERN NOT FOUND"; exit 9; }
(cd $R && GOFLAGS=-mod=mod GOPROXY=off go build ./... 2>&1 | tail -3)
cd /work/wpd && VERIF_REPO=$R bin/check $prop 2>&1 | tail -4 | cut -c1-400
echo "exit=$?"
git -C $R checkout -q -- .
