p='/work/wpm/coq/theories/Props/C35.v'
s=open(p).read()
a=s.index('(* "p", "M", "N", "a", "b", "c" *)')
b=s.index('(* ---------- recorded findings')
s=s[:a]+'''Example C35_validate_accepts_base_nonvacuous :
  base_file ex_file /\\ validate false false ex_file = Accept /\\ validate false true ex_file = Accept.
Proof. exact ex_file_base. Qed.

(* non-vacuity of soundness: the hypothesis is satisfiable (above), and the checks do fire *)
Example C35_validate_sound_nonvacuous :
  validate false false
    (mkFile 0 [112%N] [] [Msg [77%N] [ex_field [97%N] 1 1 5; ex_field [98%N] 1 1 5] [] [] [] [] [] [] [] false false] [])
  = Reject E_m_dupnum /\\
  validate false false (mkFile 1 [] [mkEnum [69%N] [mkEValue [65%N] (Some 1)] false [] []] [] []) = Reject E_e_first.
Proof. exact checks_fire. Qed.

'''+s[b:]
a=s.index('Proof.\n  exists (mkFile 0 [112%N] [] [Msg [77%N] [mkField')
b=s.index('Print Assumptions C35_rejects_invalid_packed_refuted.')
s=s[:a]+'Proof. exact invalid_packed_accepted. Qed.\n'+s[b:]
a=s.index('Proof.\n  exists (mkFile 0 [112%N] [] [Msg [77%N] [ex_field [97%N] 19000')
b=s.index('Print Assumptions C35_rejects_reserved_implementation_numbers_refuted.')
s=s[:a]+'Proof. exact reserved_implementation_number_accepted. Qed.\n'+s[b:]
open(p,'w').write(s)
