From Coq Require Import List.
Search NoDup app.
