From Coq Require Import List Arith NArith ZArith Lia Bool Permutation.
From Coq Require Import ZifyBool ZifyNat ZifyN.
From PB Require Import Base.PBytes Wire.WireModel Wire.VarintP Wire.ScanP.
From PB Require Import Msg.MsgSchema Msg.MsgValue Msg.MsgUtf8 Msg.MsgEnc Msg.MsgDec Msg.MsgValid.
From PB Require Import Msg.MsgWireP Msg.MsgScalarP Msg.MsgAssocP Msg.MsgSizeP Msg.MsgRoundP Msg.MergeModel.
From X Require Import T4.
Ltac Zify.zify_post_hook ::= Z.div_mod_to_equations.
Import ListNotations.
Open Scope N_scope.

Section MergeDec2.
  Variable slow : bool.
  Variable S : schema.
  Notation dm := (msg_decode_msg slow S).
  Notation eb := (msg_enc_body S).

  Lemma msg_old_sub_value fd accf :
    card_repeated (f_card fd) = false ->
    msg_old_sub fd accf = msg_macc_of (msg_old_value accf (f_num fd)).
  Proof.
    intros Hr. unfold msg_old_sub, msg_old_value. rewrite Hr.
    destruct (msg_fget accf (f_num fd)) as [|[s|fs u|k v] r]; reflexivity.
  Qed.
  Lemma msg_old_value_vmsg accf num : exists fs u, msg_old_value accf num = VMsg fs u.
  Proof.
    unfold msg_old_value. destruct (msg_fget accf num) as [|[s|fs u|k v] r]; try (exists [], []; reflexivity).
    exists fs, u. reflexivity.
  Qed.

  Section InMsg2.
    Variables (d : nat) (tid : nat) (md : mdesc) (grp : N).
    Hypothesis Hmd : nth_error S tid = Some md.
    Notation has2 := (match d with O => false | _ => true end).
    Notation tv2 := (fun t x => match d with O => false | Datatypes.S d1 => msg_typed slow S d1 t x end).

    (* ---------- one singular message / group, merged into the value already there ---------- *)
    Lemma msg_mrg_sub fd v accf u tail g :
      msg_find_field md (f_num fd) = Some fd -> msg_not_map fd -> card_repeated (f_card fd) = false ->
      1 <= f_num fd -> f_num fd <= msg_max_num ->
      (exists t, f_kind fd = KMsg t \/ f_kind fd = KGrp t) ->
      msg_typed_elem slow (msg_typed slow S d) fd v = true ->
      msg_szok_elem (msg_size_body S) (msg_sizes_ok S) (f_kind fd) v = true ->
      msg_mrg_stmt slow S v ->
      (length (msg_enc_elem eb (f_num fd) (f_kind fd) v ++ tail) < length g)%nat ->
      exists m t g2, (f_kind fd = KMsg t \/ f_kind fd = KGrp t) /\
        msg_merge_d S d t (msg_old_value accf (f_num fd)) v = Some m /\
        (length tail < length g2)%nat /\
        dm (Datatypes.S d) tid grp g (msg_enc_elem eb (f_num fd) (f_kind fd) v ++ tail) (accf, u) =
        dm (Datatypes.S d) tid grp g2 tail (msg_set_field md fd m accf, u).
    Proof.
      intros Hf Hnm Hrep Hlo Hhi (t0 & Hkind) Hty Hsz Hstmt Hg.
      unfold msg_typed_elem in Hty. unfold msg_enc_elem, msg_szok_elem in *.
      destruct (msg_old_value_vmsg accf (f_num fd)) as (ofs & ou & Hold).
      destruct (f_kind fd) as [sk|t|t] eqn:Hk; destruct v as [s|fs' u'|k0 v0]; try discriminate;
        try (destruct Hkind as [Hkind|Hkind]; discriminate).
      - (* message *)
        apply andb_true_iff in Hsz. destruct Hsz as [Hsok Hslt].
        pose proof (msg_body_len S t _ Hsok Hslt) as Hlen.
        rewrite <- app_assoc in *.
        destruct (Hstmt d t Hty Hsok (msg_macc_of (msg_old_value accf (f_num fd))) 0 [] (x00 :: eb t (VMsg fs' u')))
          as (m & g1 & Hm & Hg1 & E1); [rewrite app_nil_r; cbn [length]; lia|].
        rewrite app_nil_r in E1.
        exists (VMsg (fst m) (snd m)), t.
        destruct (msg_dm_field slow S d tid md grp g (f_num fd) 2 (enc_bytes (eb t (VMsg fs' u'))) tail (accf, u)
                    (msg_set_field md fd (VMsg (fst m) (snd m)) accf, u) Hmd Hlo Hhi) as (g2 & Hg2 & E);
          [lia|lia| |exact Hg|].
        + intros tagraw.
          rewrite (msg_step_message slow md _ _ fd t (eb t (VMsg fs' u')) tail tagraw (accf, u) m); try assumption.
          * cbn [fst snd]. unfold msg_store_sub. rewrite Hrep. reflexivity.
          * cbn [fst]. rewrite (msg_old_sub_value fd accf Hrep). unfold msg_whole. rewrite E1.
            destruct d as [|d0].
            -- cbn [msg_typed] in Hty. discriminate.
            -- destruct (msg_typed_unfold slow S _ t fs' u' Hty) as (d' & md' & Hd' & Hmd' & _).
               rewrite (msg_dm_end0 slow S d0 t md' g1 m); [reflexivity| |lia].
               inversion Hd'; subst d'. exact Hmd'.
        + exists g2. split; [left; reflexivity|]. split; [|split; [exact Hg2|exact E]].
          rewrite Hold in *. cbn [msg_macc_of fst snd] in Hm. exact Hm.
      - (* group *)
        apply andb_true_iff in Hty. destruct Hty as [Hty Hunk].
        apply andb_true_iff in Hty. destruct Hty as [Hslow Hty].
        apply negb_true_iff in Hslow.
        replace ((enc_tag (f_num fd) 3 ++ eb t (VMsg fs' u') ++ enc_tag (f_num fd) 4) ++ tail)
          with (enc_tag (f_num fd) 3 ++ (eb t (VMsg fs' u') ++ enc_tag (f_num fd) 4) ++ tail) in *
          by (rewrite <- !app_assoc; reflexivity).
        destruct (Hstmt d t Hty Hsz (msg_macc_of (msg_old_value accf (f_num fd))) (f_num fd) (enc_tag (f_num fd) 4 ++ tail)
                         (x00 :: (eb t (VMsg fs' u') ++ enc_tag (f_num fd) 4) ++ tail))
          as (m & g1 & Hm & Hg1 & E1); [rewrite <- app_assoc; cbn [length]; lia|].
        exists (VMsg (fst m) (snd m)), t.
        destruct (msg_dm_field slow S d tid md grp g (f_num fd) 3 (eb t (VMsg fs' u') ++ enc_tag (f_num fd) 4) tail (accf, u)
                    (msg_set_field md fd (VMsg (fst m) (snd m)) accf, u) Hmd Hlo Hhi) as (g2 & Hg2 & E);
          [lia|lia| |exact Hg|].
        + intros tagraw.
          rewrite (msg_step_group slow md _ _ fd t (eb t (VMsg fs' u') ++ enc_tag (f_num fd) 4) tail tagraw (accf, u) m);
            try assumption.
          * cbn [fst snd]. unfold msg_store_sub. rewrite Hrep. reflexivity.
          * cbn [fst]. rewrite (msg_old_sub_value fd accf Hrep). rewrite <- app_assoc in E1 |- *. rewrite E1.
            destruct d as [|d0].
            -- cbn [msg_typed] in Hty. discriminate.
            -- destruct (msg_typed_unfold slow S _ t fs' u' Hty) as (d' & md' & Hd' & Hmd' & _).
               inversion Hd'; subst d'.
               apply (msg_dm_end_grp slow S d0 t md' (f_num fd) g1 tail m Hmd' Hlo Hhi). lia.
        + exists g2. split; [right; reflexivity|]. split; [|split; [exact Hg2|exact E]].
          rewrite Hold in *. cbn [msg_macc_of fst snd] in Hm. exact Hm.
    Qed.

    (* ---------- one field with all its values = msg_merge_one ---------- *)
    Lemma msg_mrg_field fd vs accf u tail g :
      msg_find_field md (f_num fd) = Some fd ->
      msg_typed_field slow (msg_typed slow S d) tv2 has2 fd vs = true ->
      msg_szok_field (msg_size_body S) (msg_sizes_ok S) fd vs = true ->
      Forall (msg_mrg_stmt_deep slow S) vs ->
      (length (msg_enc_field eb fd vs ++ tail) < length g)%nat ->
      exists accf' g2,
        msg_merge_one (msg_merge_d S d) md accf (f_num fd, vs) = Some accf' /\
        (length tail < length g2)%nat /\
        dm (Datatypes.S d) tid grp g (msg_enc_field eb fd vs ++ tail) (accf, u) =
        dm (Datatypes.S d) tid grp g2 tail (accf', u).
    Proof.
      intros Hf Hty Hsz Hdeep Hg.
      unfold msg_typed_field in Hty. unfold msg_szok_field in Hsz. unfold msg_enc_field in *.
      unfold msg_merge_one. cbn [fst snd]. rewrite Hf.
      apply andb_true_iff in Hty. destruct Hty as [Hnum Hty].
      apply andb_true_iff in Hnum. destruct Hnum as [Hlo Hhi].
      apply andb_true_iff in Hsz. destruct Hsz as [_ Hsz].
      assert (Hlo' : 1 <= f_num fd) by lia. assert (Hhi' : f_num fd <= msg_max_num) by lia.
      pose proof (msg_dec_stmt_all slow S) as Hfresh.
      (* singular *)
      assert (Hsingle : forall v c, vs = [v] -> f_card fd = c -> msg_not_map fd -> card_repeated c = false ->
                msg_typed_elem slow (msg_typed slow S d) fd v = true ->
                (match c, v with CImp, VS s => msg_scalar_is_zero s = false | _, _ => True end) ->
                forallb (msg_szok_elem (msg_size_body S) (msg_sizes_ok S) (f_kind fd)) vs = true ->
                (length (flat_map (fun e => msg_enc_elem eb (f_num fd) (f_kind fd) e) vs ++ tail) < length g)%nat ->
                exists accf' g2,
                  match f_kind fd, v with
                  | KMsg t, VMsg _ _ | KGrp t, VMsg _ _ =>
                    match msg_merge_d S d t (msg_old_value accf (f_num fd)) v with
                    | Some m => Some (msg_set_field md fd m accf)
                    | None => None
                    end
                  | _, VS s => Some (match c with
                                     | CImp => if msg_scalar_is_zero s then accf else msg_set_field md fd v accf
                                     | _ => msg_set_field md fd v accf
                                     end)
                  | _, _ => Some accf
                  end = Some accf' /\
                  (length tail < length g2)%nat /\
                  dm (Datatypes.S d) tid grp g (flat_map (fun e => msg_enc_elem eb (f_num fd) (f_kind fd) e) vs ++ tail) (accf, u) =
                  dm (Datatypes.S d) tid grp g2 tail (accf', u)).
      { clear Hg Hsz Hty. intros v c -> Hc Hnm Hrep Htyv Hz Hszv0 Hg. cbn [flat_map forallb] in *. rewrite app_nil_r in *.
        apply andb_true_iff in Hszv0. destruct Hszv0 as [Hszv _].
        pose proof (Forall_inv Hdeep) as [Hstv _].
        rewrite <- Hc in Hrep.
        destruct (f_kind fd) as [sk|t|t] eqn:Hk.
        - (* scalar *)
          destruct v as [s|fs' u'|k0 v0]; try (unfold msg_typed_elem in Htyv; rewrite Hk in Htyv; discriminate).
          unfold msg_typed_elem in Htyv. rewrite Hk in Htyv.
          apply andb_true_iff in Htyv. destruct Htyv as [Hok Hstr]. cbn [msg_szok_elem] in Hszv.
          destruct (msg_mrg_scalar slow S d tid md grp Hmd fd sk s accf u tail g Hf Hk Hnm Hlo' Hhi' Hok Hszv Hstr)
            as (g2 & Hg2 & E); [rewrite Hk; exact Hg|].
          rewrite Hk in E. rewrite Hrep in E.
          eexists. exists g2. split; [|split; [exact Hg2|exact E]].
          destruct c; try reflexivity. rewrite Hz. reflexivity.
        - destruct (msg_mrg_sub fd v accf u tail g Hf Hnm Hrep Hlo' Hhi') as (m & t' & g2 & Hk' & Hm & Hg2 & E);
            try assumption; [exists t; left; exact Hk|rewrite Hk; exact Hszv|rewrite Hk; exact Hg|].
          assert (t' = t) as -> by (destruct Hk' as [Hk'|Hk']; congruence).
          rewrite Hk in E.
          destruct v as [s|fs' u'|k0 v0]; try (unfold msg_typed_elem in Htyv; rewrite Hk in Htyv; discriminate).
          rewrite Hm. eexists. exists g2. split; [reflexivity|split; [exact Hg2|exact E]].
        - destruct (msg_mrg_sub fd v accf u tail g Hf Hnm Hrep Hlo' Hhi') as (m & t' & g2 & Hk' & Hm & Hg2 & E);
            try assumption; [exists t; right; exact Hk|rewrite Hk; exact Hszv|rewrite Hk; exact Hg|].
          assert (t' = t) as -> by (destruct Hk' as [Hk'|Hk']; congruence).
          rewrite Hk in E.
          destruct v as [s|fs' u'|k0 v0]; try (unfold msg_typed_elem in Htyv; rewrite Hk in Htyv; discriminate).
          rewrite Hm. eexists. exists g2. split; [reflexivity|split; [exact Hg2|exact E]]. }
      (* repeated, expanded *)
      assert (Hexp : msg_not_map fd -> card_repeated (f_card fd) = true ->
                forallb (msg_typed_elem slow (msg_typed slow S d) fd) vs = true ->
                forallb (msg_szok_elem (msg_size_body S) (msg_sizes_ok S) (f_kind fd)) vs = true ->
                (length (flat_map (fun e => msg_enc_elem eb (f_num fd) (f_kind fd) e) vs ++ tail) < length g)%nat ->
                exists g2, (length tail < length g2)%nat /\
                  dm (Datatypes.S d) tid grp g (flat_map (fun e => msg_enc_elem eb (f_num fd) (f_kind fd) e) vs ++ tail) (accf, u) =
                  dm (Datatypes.S d) tid grp g2 tail (msg_append_field fd vs accf, u)).
      { intros Hnm Hrep Htyv Hszv Hgv.
        apply (msg_mrg_elems slow S d tid md grp Hmd fd u Hf Hnm Hlo' Hhi' Hrep vs accf tail g); [|exact Hgv].
        rewrite forallb_forall in Htyv, Hszv. apply Forall_forall. intros v Hv.
        repeat split; [apply Htyv, Hv|apply Hszv, Hv|apply (proj1 (Hfresh v))]. }
      destruct (f_card fd) as [| | | | |kk kutf8 vdef] eqn:Hc.
      - destruct vs as [|v [|]]; try discriminate.
        apply (Hsingle v COpt eq_refl eq_refl); try assumption; try reflexivity; try exact I;
          intros ? ? ?; rewrite Hc; discriminate.
      - destruct vs as [|v [|]]; try discriminate.
        apply andb_true_iff in Hty. destruct Hty as [Hty Hnz].
        apply (Hsingle v CImp eq_refl eq_refl); try assumption; try reflexivity;
          try (intros ? ? ?; rewrite Hc; discriminate).
        destruct v as [s| |]; try exact I. destruct (f_kind fd); try discriminate.
        apply negb_true_iff in Hnz. exact Hnz.
      - destruct vs as [|v [|]]; try discriminate.
        apply (Hsingle v CReq eq_refl eq_refl); try assumption; try reflexivity; try exact I;
          intros ? ? ?; rewrite Hc; discriminate.
      - destruct (Hexp ltac:(intros ? ? ?; rewrite Hc; discriminate) ltac:(try rewrite Hc; reflexivity)) as (g2 & Hg2 & E);
          try assumption; [destruct vs; [discriminate|exact Hty]|].
        eexists. exists g2. split; [reflexivity|split; [exact Hg2|exact E]].
      - assert (Htyv : forallb (msg_typed_elem slow (msg_typed slow S d) fd) vs = true)
          by (destruct vs; [discriminate|exact Hty]).
        destruct (f_kind fd) as [sk|t|t] eqn:Hk.
        + destruct vs as [|v0 vs']; [discriminate|].
          destruct (msg_packable sk) eqn:Hp.
          * apply andb_true_iff in Hsz. destruct Hsz as [Hszv Hplen].
            pose proof (msg_packed_eq (msg_size_body S) (msg_sizes_ok S) sk (v0 :: vs') Hszv) as Hpe.
            assert (Hlen : N.of_nat (length (msg_enc_packed_payload sk (v0 :: vs'))) < 2^64)
              by (rewrite <- Hpe, <- msg_two64_eq; lia).
            rewrite <- app_assoc in *.
            destruct (msg_dm_field slow S d tid md grp g (f_num fd) 2
                        (enc_bytes (msg_enc_packed_payload sk (v0 :: vs'))) tail (accf, u)
                        ((msg_append_field fd (v0 :: vs') accf), u) Hmd Hlo' Hhi') as (g2 & Hg2 & E);
              [lia|lia| |exact Hg|].
            -- intros tagraw.
               apply (msg_step_packed slow md _ _ fd sk (v0 :: vs') tagraw tail (accf, u)); try assumption.
               ++ rewrite Hc. reflexivity.
               ++ rewrite forallb_forall in Htyv, Hszv. apply Forall_forall. intros v Hv.
                  specialize (Htyv v Hv). specialize (Hszv v Hv).
                  unfold msg_typed_elem in Htyv. rewrite Hk in Htyv.
                  destruct v as [s| |]; try discriminate. cbn [msg_szok_elem] in Hszv.
                  apply andb_true_iff in Htyv. destruct Htyv as [Hok _]. split; assumption.
            -- eexists. exists g2. split; [reflexivity|split; [exact Hg2|exact E]].
          * destruct (Hexp ltac:(intros ? ? ?; rewrite Hc; discriminate) ltac:(try rewrite Hc; reflexivity))
              as (g2 & Hg2 & E); try assumption.
            eexists. exists g2. split; [reflexivity|split; [exact Hg2|exact E]].
        + destruct (Hexp ltac:(intros ? ? ?; rewrite Hc; discriminate) ltac:(try rewrite Hc; reflexivity))
            as (g2 & Hg2 & E); try assumption.
          eexists. exists g2. split; [reflexivity|split; [exact Hg2|exact E]].
        + destruct (Hexp ltac:(intros ? ? ?; rewrite Hc; discriminate) ltac:(try rewrite Hc; reflexivity))
            as (g2 & Hg2 & E); try assumption.
          eexists. exists g2. split; [reflexivity|split; [exact Hg2|exact E]].
      - (* map *)
        apply andb_true_iff in Hty. destruct Hty as [Hty Hsorted].
        apply andb_true_iff in Hty. destruct Hty as [Hhas2 Hty].
        assert (Hd : exists d1, d = Datatypes.S d1) by (destruct d; [discriminate|eexists; reflexivity]).
        destruct Hd as (d1 & Hd).
        assert (Htye : forallb (msg_typed_entry (msg_typed slow S d1) fd kk kutf8) vs = true).
        { destruct vs; [discriminate|]. rewrite Hd in Hty. exact Hty. }
        destruct (msg_mrg_entries slow S d tid md grp Hmd fd kk kutf8 vdef d1 u Hd Hf Hc Hlo' Hhi' vs accf tail g)
          as (g2 & Hg2 & E); [|exact Hg|].
        + rewrite forallb_forall in Htye, Hsz. rewrite Forall_forall in *.
          intros e He. repeat split; [apply Htye, He|apply Hsz, He|apply (proj1 (Hfresh e))|apply (proj2 (Hfresh e))].
        + eexists. exists g2. split; [reflexivity|split; [exact Hg2|exact E]].
    Qed.
  End InMsg2.
End MergeDec2.
