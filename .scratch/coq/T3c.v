From Coq Require Import List NArith ZArith Bool Lia.
From Coq Require Import ZifyBool ZifyNat ZifyN.
From PB Require Import Base.PBytes Wire.WireModel Msg.MsgSchema Msg.MsgValue Msg.MsgEnc Msg.MsgDec Msg.MsgValid
  Msg.MsgAssocP Msg.MsgSizeP Msg.MsgRoundP.
From X Require Import InitModel2 T1 T2 T3a T3b.
Import ListNotations.
Open Scope N_scope.

Section Flag2.
  Variable S : schema.
  Variable ni : nat -> bool.
  Hypothesis Hwf : msg_init_wf S ni.
  Notation dm := (msg_decode_msg false S).
  Notation im := (msg_init_msg S ni).

  Lemma msg_loop_sync d tid md grp :
    nth_error S tid = Some md -> msg_md_wf ni md -> msg_flag_stmt S ni d ->
    forall g g2 bs acc st acc' rest st' rest2,
      dm (Datatypes.S d) tid grp g bs acc = DOk (acc', rest) ->
      msg_iloop (msg_istep ni md (im d) (msg_isub2 S ni d)) grp g2 bs st = DOk (st', rest2) ->
      rest2 = rest /\ (msg_inv S md (fst acc) st -> msg_inv S md (fst acc') st').
  Proof.
    intros Hmd Hmdwf IHd. induction g as [|x g IH]; intros g2 bs acc st acc' rest st' rest2 Hdm Him.
    - cbn [msg_decode_msg] in Hdm. rewrite Hmd in Hdm. discriminate.
    - destruct g2 as [|x2 g2]; [discriminate|].
      rewrite (msg_dm_unfold false S d tid grp md x g bs acc Hmd) in Hdm. cbn [msg_iloop] in Him.
      destruct bs as [|b0 bs0].
      + destruct (grp =? 0); [|discriminate]. inversion Hdm; subst acc' rest. inversion Him; subst st' rest2.
        split; [reflexivity|exact (fun H => H)].
      + destruct (dec_tag (b0 :: bs0)) as [[[num typ] r]|e]; [|discriminate].
        destruct (msg_max_num <? num); [discriminate|].
        destruct (typ =? 4).
        * destruct (num =? grp); [|discriminate]. inversion Hdm; subst acc' rest. inversion Him; subst st' rest2.
          split; [reflexivity|exact (fun H => H)].
        * cbv zeta in Hdm.
          destruct (msg_step false md (dm d) (msg_dsub2 false S d) (enc_tag num typ) num typ r acc) as [[acc1 r1]|e] eqn:E1; [|discriminate].
          destruct (msg_istep ni md (im d) (msg_isub2 S ni d) num typ r st) as [[st1 r1']|e] eqn:E2; [|discriminate].
          destruct (msg_step_sync S ni Hwf d md Hmdwf IHd _ _ _ _ _ _ _ _ _ _ E1 E2) as [-> Hinv1].
          destruct (IH _ _ _ _ _ _ _ _ Hdm Him) as [Hr Hinv2]. split; [exact Hr|].
          intros H. exact (Hinv2 (Hinv1 H)).
  Qed.

  Theorem msg_flag_all : forall d, msg_flag_stmt S ni d.
  Proof.
    induction d as [|d IHd]; intros tid grp g bs acc acc' rest g2 f rest2 Hdm Him.
    - cbn [msg_decode_msg] in Hdm. discriminate.
    - cbn [msg_init_msg] in Him. destruct (nth_error S tid) as [md|] eqn:Hmd.
      2:{ cbn [msg_decode_msg] in Hdm. rewrite Hmd in Hdm. discriminate. }
      change (match d with O => None | Datatypes.S d1 => Some (im d1) end) with (msg_isub2 S ni d) in Him.
      destruct (msg_iloop (msg_istep ni md (im d) (msg_isub2 S ni d)) grp g2 bs (0, true)) as [[st rest2']|e] eqn:El; [|discriminate].
      inversion Him; subst f rest2'. clear Him.
      pose proof (proj1 Hwf _ _ Hmd) as Hmdwf.
      destruct (msg_loop_sync d tid md grp Hmd Hmdwf IHd g g2 bs acc (0, true) acc' rest st rest2 Hdm El) as [-> Hinv].
      split; [reflexivity|]. intros Hfin Hsubs.
      rewrite (msg_nth_error_nth S tid md Hmd) in Hsubs.
      assert (Hinv0 : msg_inv S md (fst acc) (0, true)).
      { split; [intros i Hi; cbn [fst] in Hi; rewrite N.bits_0 in Hi; discriminate|intros _; exact Hsubs]. }
      destruct (Hinv Hinv0) as [Hmask Hsub].
      unfold msg_ifinish in Hfin. apply andb_true_iff in Hfin. destruct Hfin as [Hok Hcnt].
      cbn [msg_check_init]. rewrite (msg_nth_error_nth S tid md Hmd). apply andb_true_iff. split.
      + unfold msg_required_present. apply forallb_forall. intros fd Hin.
        destruct (msg_is_req fd) eqn:Hr; [|reflexivity]. cbn [negb orb].
        destruct (wf_req ni md Hmdwf fd Hin Hr) as [Hx _].
        apply orb_true_iff in Hcnt. destruct Hcnt as [Hz|Hpc].
        * exfalso. apply N.eqb_eq in Hz. pose proof (msg_count_required_pos md fd Hin Hx Hr).
          unfold msg_num_required in Hz. lia.
        * apply N.eqb_eq in Hpc.
          exact (msg_mask_sound_gen md (fun h => msg_present (fst acc') h = true) (fst st)
                                    (wf_uniq ni md Hmdwf) Hmask Hpc fd Hin Hx Hr).
      + apply forallb_forall. intros p Hp. apply msg_elems_ok_chunk. exact (Hsub Hok p Hp).
  Qed.
End Flag2.

(* the fast path never marks a partial message as initialized (for schemas outside FA2 / [maps]) *)
Theorem msg_fast_flag_sound S ni limit tid bs v :
  msg_init_wf S ni ->
  msg_decode false S limit tid bs = DOk v ->
  msg_init_flag S ni limit tid bs = DOk true ->
  msg_check_init S tid v = true.
Proof.
  intros Hwf Hd Hf. unfold msg_decode, msg_decode_into in Hd. unfold msg_init_flag in Hf.
  destruct (msg_decode_msg false S limit tid 0 (x00 :: bs) bs (msg_macc_of msg_empty)) as [[m r1]|e] eqn:E1; [|discriminate].
  destruct (msg_init_msg S ni limit tid 0 (x00 :: bs) bs) as [[f r2]|e] eqn:E2; [|discriminate].
  inversion Hd; subst v. inversion Hf; subst f.
  apply (proj2 (msg_flag_all S ni Hwf limit _ _ _ _ _ _ _ _ _ _ E1 E2) eq_refl).
  intros p [].
Qed.

(* proto.Unmarshal without AllowPartial reports a required-field error iff the decoded message is partial *)
Theorem msg_unmarshal_exact S ni limit tid bs :
  msg_init_wf S ni ->
  (msg_unmarshal S ni limit tid false bs = URequired <->
   exists v, msg_decode false S limit tid bs = DOk v /\ msg_check_init S tid v = false).
Proof.
  intros Hwf. unfold msg_unmarshal. destruct (msg_decode false S limit tid bs) as [v|e] eqn:Hd.
  - split.
    + intros H. exists v. split; [reflexivity|].
      destruct (msg_init_flag S ni limit tid bs) as [[|]|e]; try discriminate;
        destruct (msg_check_init S tid v); [discriminate|reflexivity|discriminate|reflexivity].
    + intros (v' & Hv & Hc). inversion Hv; subst v'.
      destruct (msg_init_flag S ni limit tid bs) as [[|]|e] eqn:Hf; try (rewrite Hc; reflexivity).
      rewrite (msg_fast_flag_sound S ni limit tid bs v Hwf Hd Hf) in Hc. discriminate.
  - split; [discriminate|]. intros (v & Hv & _). discriminate.
Qed.

Theorem msg_unmarshal_ok_exact S ni limit tid bs v :
  msg_init_wf S ni ->
  (msg_unmarshal S ni limit tid false bs = UOk v <->
   msg_decode false S limit tid bs = DOk v /\ msg_check_init S tid v = true).
Proof.
  intros Hwf. unfold msg_unmarshal. destruct (msg_decode false S limit tid bs) as [v0|e] eqn:Hd.
  - split.
    + intros H.
      destruct (msg_init_flag S ni limit tid bs) as [[|]|e] eqn:Hf.
      * inversion H; subst v0. split; [reflexivity|]. exact (msg_fast_flag_sound S ni limit tid bs v Hwf Hd Hf).
      * destruct (msg_check_init S tid v0) eqn:Hc; [|discriminate]. inversion H; subst v0. split; [reflexivity|exact Hc].
      * destruct (msg_check_init S tid v0) eqn:Hc; [|discriminate]. inversion H; subst v0. split; [reflexivity|exact Hc].
    + intros [Hv Hc]. inversion Hv; subst v0.
      destruct (msg_init_flag S ni limit tid bs) as [[|]|e]; try reflexivity; rewrite Hc; reflexivity.
  - split; [discriminate|]. intros [Hv _]. discriminate.
Qed.

Theorem msg_unmarshal_slow_exact S limit tid bs :
  msg_unmarshal_slow S limit tid false bs = URequired <->
  exists v, msg_decode true S limit tid bs = DOk v /\ msg_check_init S tid v = false.
Proof.
  unfold msg_unmarshal_slow. destruct (msg_decode true S limit tid bs) as [v|e].
  - cbn [orb]. split.
    + intros H. exists v. split; [reflexivity|]. destruct (msg_check_init S tid v); [discriminate|reflexivity].
    + intros (v' & Hv & Hc). inversion Hv; subst v'. rewrite Hc. reflexivity.
  - split; [discriminate|]. intros (v & Hv & _). discriminate.
Qed.

Theorem msg_marshal_exact S tid v :
  msg_marshal_checked S tid false v = None <-> msg_check_init S tid v = false.
Proof. unfold msg_marshal_checked. cbn [orb]. destruct (msg_check_init S tid v); split; congruence. Qed.

(* ---------- refutations of the unrestricted statements (witnesses replayed on the implementation) ---------- *)
Definition ex_req : mdesc := [mkF 1 (KS SkInt32) CReq None false false false].
(* FA2: One { oneof u { int32 x = 1; Req m = 2; } } *)
Definition ex_fa2 : schema :=
  [[mkF 1 (KS SkInt32) COpt (Some 0) false false false; mkF 2 (KMsg 1) COpt (Some 0) false false false]; ex_req].
Lemma msg_fast_flag_sound_refuted_FA2 :
  exists S ni bs v, msg_decode false S 100 0 bs = DOk v /\ msg_init_flag S ni 100 0 bs = DOk true /\
                    msg_check_init S 0 v = false.
Proof.
  exists ex_fa2, (fun _ => true), [n2b 18; n2b 0]. eexists. vm_compute. repeat split; reflexivity.
Qed.
(* FA5: MapV { map<int32, V> mv = 1; }  V { optional Req child = 4; } ; entry = key 1, value {}, value {child {}} *)
Definition ex_fa5 : schema :=
  [[mkF 1 (KMsg 1) (CMap SkInt32 false 0) None false false false];
   [mkF 4 (KMsg 2) COpt None false false false]; ex_req].
Lemma msg_fast_flag_sound_refuted_FA5 :
  exists S ni bs v, msg_decode false S 100 0 bs = DOk v /\ msg_init_flag S ni 100 0 bs = DOk true /\
                    msg_check_init S 0 v = false.
Proof.
  exists ex_fa5, (fun _ => true), (map n2b [10; 8; 8; 1; 18; 0; 18; 2; 34; 0]). eexists. vm_compute. repeat split; reflexivity.
Qed.
(* FA1: TestRequiredLazy { optional TestRequired m = 1 [lazy = true]; } <- 0a 00, lazy decoding *)
Definition ex_fa1 : schema := [[mkF 1 (KMsg 1) COpt None false false true]; ex_req].
Lemma msg_unmarshal_lazy_exact_refuted_FA1 :
  exists S ni bs v, msg_unmarshal_lazy S ni 100 0 false bs = UOk v /\ msg_check_init S 0 v = false.
Proof.
  exists ex_fa1, (fun _ => true), [n2b 10; n2b 0]. eexists. vm_compute. split; reflexivity.
Qed.

(* non-vacuity of msg_init_wf: TestRequiredForeign without its map *)
Definition ex_wf : schema :=
  [[mkF 1 (KMsg 1) COpt None false false false; mkF 2 (KMsg 1) CRep None false false false;
    mkF 4 (KMsg 1) COpt (Some 0) false false false]; ex_req].
Lemma ex_wf_ok : msg_init_wf ex_wf (fun _ => true).
Proof.
  split; [|intros tid v H; discriminate].
  intros tid md Hmd. destruct tid as [|[|tid]]; cbn in Hmd; [| |destruct tid; discriminate];
    inversion Hmd; subst md; constructor.
  - intros fd [<-|[<-|[<-|[]]]]; reflexivity.
  - intros fd [<-|[<-|[<-|[]]]] H; discriminate.
  - intros fd t [<-|[<-|[<-|[]]]] _; reflexivity.
  - intros fd kk ku vd t [<-|[<-|[<-|[]]]] H; discriminate.
  - intros fd [<-|[]]; reflexivity.
  - intros fd [<-|[]] _. split; reflexivity.
  - intros fd t [<-|[]] [H|H]; discriminate.
  - intros fd kk ku vd t [<-|[]] H; discriminate.
Qed.
