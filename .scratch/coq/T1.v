From Coq Require Import List NArith ZArith Bool Lia.
From Coq Require Import ZifyBool ZifyNat ZifyN.
From PB Require Import Base.PBytes Wire.WireModel Msg.MsgSchema Msg.MsgValue Msg.MsgEnc Msg.MsgDec Msg.MsgSizeP.
From X Require Import InitModel2.
Import ListNotations.
Open Scope N_scope.

Lemma msg_forallb_false {A} (f : A -> bool) l : forallb f l = false -> exists x, In x l /\ f x = false.
Proof.
  induction l as [|a l IH]; [discriminate|]. cbn [forallb]. destruct (f a) eqn:E.
  - cbn [andb]. intros H. destruct (IH H) as (x & Hx & Hf). exists x. split; [right; exact Hx|exact Hf].
  - intros _. exists a. split; [left; reflexivity|exact E].
Qed.
Lemma msg_forallb_in_false {A} (f : A -> bool) l x : In x l -> f x = false -> forallb f l = false.
Proof.
  intros Hin Hf. destruct (forallb f l) eqn:E; [|reflexivity].
  rewrite forallb_forall in E. rewrite (E x Hin) in Hf. discriminate.
Qed.

Definition msg_unentry (x : value) : value := match x with VEntry _ x' => x' | _ => x end.

(* some message of the tree lacks a required field *)
Inductive msg_missing (S : schema) : nat -> value -> Prop :=
| MissHere tid fs u fd :
    In fd (nth tid S []) -> msg_is_req fd = true -> msg_present fs (f_num fd) = false ->
    msg_missing S tid (VMsg fs u)
| MissBelow tid fs u p fd t x :
    In p fs -> msg_find_field (nth tid S []) (fst p) = Some fd ->
    (f_kind fd = KMsg t \/ f_kind fd = KGrp t) -> In x (snd p) ->
    msg_missing S t (msg_unentry x) ->
    msg_missing S tid (VMsg fs u).

Lemma msg_check_elem_unentry S t x : msg_check_elem (msg_check_init S) t x = msg_check_init S t (msg_unentry x).
Proof. destruct x; reflexivity. Qed.

Lemma msg_missing_check S tid v : msg_missing S tid v -> msg_check_init S tid v = false.
Proof.
  induction 1 as [tid fs u fd Hin Hreq Hp|tid fs u p fd t x Hin Hf Hk Hx _ IH].
  - cbn [msg_check_init]. apply andb_false_iff. left. unfold msg_required_present.
    apply (msg_forallb_in_false _ _ fd Hin). rewrite Hreq, Hp. reflexivity.
  - cbn [msg_check_init]. apply andb_false_iff. right.
    apply (msg_forallb_in_false _ _ p Hin). unfold msg_check_chunk. rewrite Hf.
    assert (forallb (msg_check_elem (msg_check_init S) t) (snd p) = false) as E.
    { apply (msg_forallb_in_false _ _ x Hx). rewrite msg_check_elem_unentry. exact IH. }
    destruct Hk as [-> | ->]; exact E.
Qed.

Definition msg_check_stmt (S : schema) (v : value) : Prop :=
  forall tid, msg_check_init S tid v = false -> msg_missing S tid v.

Lemma msg_check_missing_all S : forall v,
  msg_check_stmt S v /\ match v with VEntry _ v' => msg_check_stmt S v' | _ => True end.
Proof.
  induction v as [s|fs unk IH|k v IH] using msg_value_ind.
  - split; [|exact I]. intros tid H. discriminate.
  - split; [|exact I]. intros tid H. cbn [msg_check_init] in H.
    apply andb_false_iff in H. destruct H as [H|H].
    + unfold msg_required_present in H. apply msg_forallb_false in H. destruct H as (fd & Hin & Hf).
      apply orb_false_iff in Hf. destruct Hf as [Hr Hp]. apply negb_false_iff in Hr.
      eapply MissHere; eassumption.
    + apply msg_forallb_false in H. destruct H as (p & Hin & Hc).
      unfold msg_check_chunk in Hc. destruct (msg_find_field (nth tid S []) (fst p)) as [fd|] eqn:Hf; [|discriminate].
      rewrite Forall_forall in IH. specialize (IH p Hin). rewrite Forall_forall in IH.
      assert (Hgo : forall t, (f_kind fd = KMsg t \/ f_kind fd = KGrp t) ->
                forallb (msg_check_elem (msg_check_init S) t) (snd p) = false -> msg_missing S tid (VMsg fs unk)).
      { intros t Hk Hall. apply msg_forallb_false in Hall. destruct Hall as (x & Hx & Hxe).
        rewrite msg_check_elem_unentry in Hxe.
        eapply MissBelow; try eassumption.
        destruct (IH x Hx) as [Hs Hd]. destruct x as [s|fs' u'|k' x']; cbn [msg_unentry] in *.
        - apply Hs. exact Hxe.
        - apply Hs. exact Hxe.
        - apply Hd. exact Hxe. }
      destruct (f_kind fd) as [sk|t|t] eqn:Hk; [discriminate| |].
      * apply (Hgo t); [left; reflexivity|exact Hc].
      * apply (Hgo t); [right; reflexivity|exact Hc].
  - split; [intros tid H; discriminate|]. exact (proj1 IH).
Qed.

Theorem msg_checkinit_exact S tid v : msg_check_init S tid v = false <-> msg_missing S tid v.
Proof. split; [apply (proj1 (msg_check_missing_all S v))|apply msg_missing_check]. Qed.
