From Coq Require Import List NArith ZArith Bool Lia.
From PB Require Import Base.PBytes Wire.WireModel Wire.ScanP Msg.MsgSchema Msg.MsgValue Msg.MsgEnc Msg.MsgDec Msg.MsgValid
  Msg.MsgAssocP Msg.MsgSizeP Msg.MsgRoundP.
Check msg_rejects_step. Check msg_unknown_loop. Check msg_elem_step. Check msg_map_entry_step. Check msg_dm_field.
Check msg_step_scalar. Check msg_step_message. Check msg_step_group. Check msg_step_packed. Check msg_dec_stmt_all.
Check msg_typed_unfold. Check msg_sizes_ok_unfold. Check dec_tag_iff. Check msg_dm_end_grp. Check msg_body_len.
Check msg_size_eq_length. Check msg_packed_eq. Check msg_elems_step. Check msg_chunk_sort_map. Check msg_two64_eq.
Print msg_dec_stmt. Print msg_term_ok. Print msg_elem_good. Print msg_entry_good. Check msg_entries_step.
