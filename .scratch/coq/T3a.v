From Coq Require Import List NArith ZArith Bool Lia.
From Coq Require Import ZifyBool ZifyNat ZifyN.
From PB Require Import Base.PBytes Wire.WireModel Msg.MsgSchema Msg.MsgValue Msg.MsgEnc Msg.MsgDec Msg.MsgValid
  Msg.MsgAssocP Msg.MsgSizeP Msg.MsgRoundP.
From X Require Import InitModel2 T1 T2.
Import ListNotations.
Open Scope N_scope.

(* ---------- association lists (no sortedness needed) ---------- *)
Lemma msg_fget_fset_other fs k vs h : h <> k -> msg_fget (msg_fset fs k vs) h = msg_fget fs h.
Proof.
  intros Hne. induction fs as [|[k0 v0] r IH]; cbn [msg_fset msg_fget].
  - destruct (N.eqb_spec h k); [congruence|reflexivity].
  - destruct (N.ltb_spec k k0) as [Hlt|Hge].
    + cbn [msg_fget]. destruct (N.eqb_spec h k); [congruence|reflexivity].
    + destruct (N.eqb_spec k k0) as [->|Hk].
      * cbn [msg_fget]. destruct (N.eqb_spec h k0); [congruence|reflexivity].
      * cbn [msg_fget]. destruct (N.eqb_spec h k0); [reflexivity|exact IH].
Qed.
Lemma msg_fget_fdel_other fs k h : h <> k -> msg_fget (msg_fdel fs k) h = msg_fget fs h.
Proof.
  intros Hne. induction fs as [|[k0 v0] r IH]; cbn [msg_fdel msg_fget]; [reflexivity|].
  destruct (N.eqb_spec k k0) as [->|Hk].
  - destruct (N.eqb_spec h k0); [congruence|reflexivity].
  - cbn [msg_fget]. destruct (N.eqb_spec h k0); [reflexivity|exact IH].
Qed.
Lemma msg_in_fset fs k vs p : In p (msg_fset fs k vs) -> p = (k, vs) \/ In p fs.
Proof.
  induction fs as [|[k0 v0] r IH]; cbn [msg_fset].
  - intros [H|[]]. left. symmetry. exact H.
  - destruct (N.ltb_spec k k0) as [Hlt|Hge].
    + intros [H|H]; [left; symmetry; exact H|right; exact H].
    + destruct (N.eqb_spec k k0) as [->|Hk].
      * intros [H|H]; [left; symmetry; exact H|right; right; exact H].
      * intros [H|H]; [right; left; exact H|]. destruct (IH H) as [E|E]; [left; exact E|right; right; exact E].
Qed.
Lemma msg_in_fdel fs k p : In p (msg_fdel fs k) -> In p fs.
Proof.
  induction fs as [|[k0 v0] r IH]; cbn [msg_fdel]; [intros []|].
  destruct (N.eqb_spec k k0); [intros H; right; exact H|].
  intros [H|H]; [left; exact H|right; exact (IH H)].
Qed.
Lemma msg_fget_in fs h : msg_fget fs h <> [] -> In (h, msg_fget fs h) fs.
Proof.
  induction fs as [|[k0 v0] r IH]; cbn [msg_fget]; [congruence|].
  destruct (N.eqb_spec h k0) as [->|Hk]; [intros _; left; reflexivity|intros H; right; exact (IH H)].
Qed.
Lemma msg_in_clear_oneof md oi num : forall fs p, In p (msg_clear_oneof md oi num fs) -> In p fs.
Proof.
  induction md as [|fd r IH]; intros fs p; cbn [msg_clear_oneof]; [exact (fun H => H)|].
  intros H. apply IH in H. destruct (f_oneof fd) as [j|]; [|exact H].
  destruct ((j =? oi) && negb (f_num fd =? num)); [exact (msg_in_fdel _ _ _ H)|exact H].
Qed.
Lemma msg_fget_clear_oneof md oi num h : forall fs,
  (forall fd, In fd md -> f_num fd = h -> f_oneof fd = Some oi -> h = num) ->
  msg_fget (msg_clear_oneof md oi num fs) h = msg_fget fs h.
Proof.
  induction md as [|fd r IH]; intros fs Hh; cbn [msg_clear_oneof]; [reflexivity|].
  rewrite IH by (intros fd' Hin; apply Hh; right; exact Hin).
  destruct (f_oneof fd) as [j|] eqn:Ho; [|reflexivity].
  destruct (N.eqb_spec j oi) as [->|Hj]; cbn [andb]; [|reflexivity].
  destruct (N.eqb_spec (f_num fd) num) as [Hn|Hn]; cbn [negb]; [reflexivity|].
  apply msg_fget_fdel_other. intros E. apply Hn. rewrite <- E.
  apply (Hh fd (or_introl eq_refl)); [symmetry; exact E|exact Ho].
Qed.
Lemma msg_in_map_put : forall es key v x, In x (msg_map_put es key v) -> x = VEntry key v \/ In x es.
Proof.
  induction es as [|e r IH]; intros key v x; cbn [msg_map_put].
  - intros [H|[]]. left. symmetry. exact H.
  - destruct e as [s|fs u|k0 v0].
    + intros [H|H]; [right; left; exact H|]. destruct (IH _ _ _ H) as [E|E]; [left; exact E|right; right; exact E].
    + intros [H|H]; [right; left; exact H|]. destruct (IH _ _ _ H) as [E|E]; [left; exact E|right; right; exact E].
    + destruct (msg_scmp key k0).
      * intros [H|H]; [left; symmetry; exact H|right; right; exact H].
      * intros [H|H]; [left; symmetry; exact H|right; exact H].
      * intros [H|H]; [right; left; exact H|]. destruct (IH _ _ _ H) as [E|E]; [left; exact E|right; right; exact E].
Qed.
Lemma msg_map_put_nonempty es key v : msg_map_put es key v <> [].
Proof. destruct es as [|[s|fs u|k0 v0] r]; cbn [msg_map_put]; try discriminate. destruct (msg_scmp key k0); discriminate. Qed.

(* ---------- well-formedness of the schema for the flag theorem ---------- *)
Record msg_md_wf (ni : nat -> bool) (md : mdesc) : Prop := {
  wf_uniq : msg_nums_unique md;
  wf_req : forall fd, In fd md -> msg_is_req fd = true -> f_ext fd = false /\ f_oneof fd = None;
  (* exclusion of finding FA2: message-typed oneof members are the first member of their oneof *)
  wf_oneof : forall fd t, In fd md -> (f_kind fd = KMsg t \/ f_kind fd = KGrp t) -> msg_tracks_init md fd = true;
  (* restriction [maps]: map values do not need an init check *)
  wf_map : forall fd kk ku vd t, In fd md -> f_card fd = CMap kk ku vd ->
                                 (f_kind fd = KMsg t \/ f_kind fd = KGrp t) -> ni t = false
}.
Definition msg_ni_sound (S : schema) (ni : nat -> bool) : Prop :=
  forall tid v, ni tid = false -> msg_check_init S tid v = true.
Definition msg_init_wf (S : schema) (ni : nat -> bool) : Prop :=
  (forall tid md, nth_error S tid = Some md -> msg_md_wf ni md) /\ msg_ni_sound S ni.

(* ---------- invariants ---------- *)
Definition msg_elems_ok (S : schema) (md : mdesc) (p : N * list value) : Prop :=
  forall fd t, msg_find_field md (fst p) = Some fd -> (f_kind fd = KMsg t \/ f_kind fd = KGrp t) ->
               forall x, In x (snd p) -> msg_check_elem (msg_check_init S) t x = true.
Definition msg_subs_ok (S : schema) (md : mdesc) (fs : fields) : Prop :=
  forall p, In p fs -> msg_elems_ok S md p.

Lemma msg_elems_ok_chunk S md p : msg_elems_ok S md p -> msg_check_chunk (msg_check_init S) md p = true.
Proof.
  intros H. unfold msg_check_chunk. destruct (msg_find_field md (fst p)) as [fd|] eqn:Hf; [|reflexivity].
  destruct (f_kind fd) as [sk|t|t] eqn:Hk; [reflexivity| |]; apply forallb_forall; intros x Hx.
  - exact (H fd t Hf (or_introl Hk) x Hx).
  - exact (H fd t Hf (or_intror Hk) x Hx).
Qed.
Lemma msg_chunk_elems_ok S md p : msg_check_chunk (msg_check_init S) md p = true -> msg_elems_ok S md p.
Proof.
  intros H fd t Hf Hk x Hx. unfold msg_check_chunk in H. rewrite Hf in H.
  destruct Hk as [Hk|Hk]; rewrite Hk in H; rewrite forallb_forall in H; exact (H x Hx).
Qed.

Definition msg_mask_ok (md : mdesc) (fs : fields) (mask : N) : Prop :=
  forall i, N.testbit mask i = true ->
            exists h, msg_present fs h = true /\ N.testbit (msg_bit_of md h) i = true.
Definition msg_inv (S : schema) (md : mdesc) (fs : fields) (st : msg_ist) : Prop :=
  msg_mask_ok md fs (fst st) /\ (snd st = true -> msg_subs_ok S md fs).

(* presence of required fields is kept *)
Definition msg_keeps (md : mdesc) (fs fs' : fields) : Prop :=
  forall h fdh, msg_find_field md h = Some fdh -> msg_is_req fdh = true ->
                msg_present fs h = true -> msg_present fs' h = true.

Lemma msg_bit_of_req md h i : N.testbit (msg_bit_of md h) i = true ->
  exists fd, msg_find_field md h = Some fd /\ msg_is_req fd = true /\ f_ext fd = false.
Proof.
  intros H. unfold msg_bit_of in H. apply msg_req_bit_testbit in H. destruct H as (Hne & _ & _).
  exact (msg_req_index_nonzero md h 0 Hne).
Qed.

Lemma msg_mask_ok_keeps md fs fs' mask : msg_keeps md fs fs' -> msg_mask_ok md fs mask -> msg_mask_ok md fs' mask.
Proof.
  intros Hk Hm i Hi. destruct (Hm i Hi) as (h & Hp & Hb). exists h. split; [|exact Hb].
  destruct (msg_bit_of_req md h i Hb) as (fd & Hf & Hr & _). exact (Hk h fd Hf Hr Hp).
Qed.

Lemma msg_mask_ok_hit md fs mask num :
  msg_mask_ok md fs mask ->
  (forall i, N.testbit (msg_bit_of md num) i = true -> msg_present fs num = true) ->
  msg_mask_ok md fs (N.lor mask (msg_bit_of md num)).
Proof.
  intros Hm Hnew i Hi. rewrite N.lor_spec in Hi. apply orb_true_iff in Hi. destruct Hi as [Hi|Hi].
  - exact (Hm i Hi).
  - exists num. split; [exact (Hnew i Hi)|exact Hi].
Qed.

(* a field that is not required contributes no bit *)
Lemma msg_bit_of_nonreq md num fd : msg_find_field md num = Some fd -> msg_is_req fd = false -> msg_bit_of md num = 0.
Proof.
  intros Hf Hr. unfold msg_bit_of.
  destruct (N.eq_dec (msg_req_index md num 0) 0) as [->|Hne]; [reflexivity|].
  destruct (msg_req_index_nonzero md num 0 Hne) as (fd' & Hf' & Hr' & _). congruence.
Qed.
Lemma msg_bit_of_ext md num fd : msg_find_field md num = Some fd -> f_ext fd = true -> msg_bit_of md num = 0.
Proof.
  intros Hf Hr. unfold msg_bit_of.
  destruct (N.eq_dec (msg_req_index md num 0) 0) as [->|Hne]; [reflexivity|].
  destruct (msg_req_index_nonzero md num 0 Hne) as (fd' & Hf' & _ & Hx'). congruence.
Qed.

(* ---------- effect of the stores on presence and on the sub-values ---------- *)
Lemma msg_present_fset_same fs k vs : vs <> [] -> msg_present (msg_fset fs k vs) k = true.
Proof. intros H. unfold msg_present. rewrite msg_fget_fset_same. destruct vs; [congruence|reflexivity]. Qed.
Lemma msg_present_fset_other fs k vs h : h <> k -> msg_present (msg_fset fs k vs) h = msg_present fs h.
Proof. intros H. unfold msg_present. rewrite msg_fget_fset_other by exact H. reflexivity. Qed.

Section Stores.
  Variable ni : nat -> bool.
  Variable md : mdesc.
  Hypothesis Hwf : msg_md_wf ni md.

  Lemma msg_find_in_self fd num : msg_find_field md num = Some fd -> In fd md /\ f_num fd = num.
  Proof. intros H. split; [exact (msg_find_field_in _ _ _ H)|exact (msg_find_field_num _ _ _ H)]. Qed.

  (* clearing the other members of a oneof does not touch required fields nor the field itself *)
  Lemma msg_clear_oneof_keeps oi num fs h fdh :
    msg_find_field md h = Some fdh -> (msg_is_req fdh = true \/ h = num) ->
    msg_fget (msg_clear_oneof md oi num fs) h = msg_fget fs h.
  Proof.
    intros Hf Hc. apply msg_fget_clear_oneof. intros fd' Hin Hn Ho.
    destruct Hc as [Hr|Hc]; [|exact Hc]. exfalso.
    pose proof (wf_uniq ni md Hwf fd' Hin) as Hu. rewrite Hn, Hf in Hu. inversion Hu; subst fd'.
    destruct (wf_req ni md Hwf fdh Hin Hr) as [_ Hoo]. congruence.
  Qed.

  Lemma msg_set_field_keeps fd v fs :
    msg_find_field md (f_num fd) = Some fd -> msg_keeps md fs (msg_set_field md fd v fs).
  Proof.
    intros Hfd h fdh Hf Hr Hp. unfold msg_set_field.
    set (drop := match f_card fd, v with CImp, VS s => msg_scalar_is_zero s | _, _ => false end).
    assert (Hfs1 : msg_present (if drop then msg_fdel fs (f_num fd) else msg_fset fs (f_num fd) [v]) h = true).
    { destruct (N.eq_dec h (f_num fd)) as [->|Hne].
      - assert (drop = false) as ->.
        { rewrite Hfd in Hf. inversion Hf; subst fdh. unfold drop. unfold msg_is_req in Hr.
          destruct (f_card fd); try discriminate. reflexivity. }
        apply msg_present_fset_same. discriminate.
      - destruct drop.
        + unfold msg_present. rewrite msg_fget_fdel_other by exact Hne. exact Hp.
        + rewrite msg_present_fset_other by exact Hne. exact Hp. }
    destruct (f_oneof fd) as [oi|]; [|exact Hfs1].
    unfold msg_present. rewrite (msg_clear_oneof_keeps oi (f_num fd) _ h fdh Hf (or_introl Hr)). exact Hfs1.
  Qed.

  Lemma msg_set_field_present fd v fs :
    msg_find_field md (f_num fd) = Some fd ->
    (match f_card fd, v with CImp, VS s => msg_scalar_is_zero s | _, _ => false end) = false ->
    msg_present (msg_set_field md fd v fs) (f_num fd) = true.
  Proof.
    intros Hfd Hd. unfold msg_set_field. rewrite Hd.
    destruct (f_oneof fd) as [oi|]; [|apply msg_present_fset_same; discriminate].
    unfold msg_present. rewrite (msg_clear_oneof_keeps oi (f_num fd) _ (f_num fd) fd Hfd (or_intror eq_refl)).
    apply msg_present_fset_same. discriminate.
  Qed.

  Lemma msg_in_set_field fd v fs p : In p (msg_set_field md fd v fs) -> p = (f_num fd, [v]) \/ In p fs.
  Proof.
    unfold msg_set_field. intros H.
    assert (H1 : In p (if match f_card fd, v with CImp, VS s => msg_scalar_is_zero s | _, _ => false end
                       then msg_fdel fs (f_num fd) else msg_fset fs (f_num fd) [v])).
    { destruct (f_oneof fd); [exact (msg_in_clear_oneof _ _ _ _ _ H)|exact H]. }
    destruct (match f_card fd, v with CImp, VS s => msg_scalar_is_zero s | _, _ => false end).
    - right. exact (msg_in_fdel _ _ _ H1).
    - exact (msg_in_fset _ _ _ _ H1).
  Qed.

  Lemma msg_append_field_keeps fd vs fs : msg_keeps md fs (msg_append_field fd vs fs).
  Proof.
    intros h fdh Hf Hr Hp. unfold msg_append_field. destruct vs as [|v vs]; [exact Hp|].
    destruct (N.eq_dec h (f_num fd)) as [->|Hne].
    - apply msg_present_fset_same. destruct (msg_fget fs (f_num fd)); discriminate.
    - rewrite msg_present_fset_other by exact Hne. exact Hp.
  Qed.
  Lemma msg_append_field_present fd vs fs : vs <> [] -> msg_present (msg_append_field fd vs fs) (f_num fd) = true.
  Proof.
    intros H. unfold msg_append_field. destruct vs as [|v vs]; [congruence|].
    apply msg_present_fset_same. destruct (msg_fget fs (f_num fd)); discriminate.
  Qed.
  Lemma msg_in_append_field fd vs fs p :
    In p (msg_append_field fd vs fs) -> p = (f_num fd, msg_fget fs (f_num fd) ++ vs) \/ In p fs.
  Proof.
    unfold msg_append_field. destruct vs as [|v vs]; [intros H; right; exact H|]. apply msg_in_fset.
  Qed.

  (* sub-values stay initialized when a field receives initialized elements *)
  Lemma msg_subs_ok_store (S : schema) fs fs' num :
    msg_subs_ok S md fs ->
    (forall p, In p fs' -> In p fs \/ (fst p = num /\ forall x, In x (snd p) -> In x (msg_fget fs num) \/
                 (forall fd t, msg_find_field md num = Some fd -> (f_kind fd = KMsg t \/ f_kind fd = KGrp t) ->
                               msg_check_elem (msg_check_init S) t x = true))) ->
    msg_subs_ok S md fs'.
  Proof.
    intros Hs Hin p Hp. destruct (Hin p Hp) as [Hold|[Hfst Hx]]; [exact (Hs p Hold)|].
    intros fd t Hf Hk x Hxin. rewrite Hfst in Hf. destruct (Hx x Hxin) as [Ho|Hn].
    - assert (Hne : msg_fget fs num <> []) by (intros E; rewrite E in Ho; exact Ho).
      pose proof (Hs _ (msg_fget_in fs num Hne)) as He. exact (He fd t Hf Hk x Ho).
    - exact (Hn fd t Hf Hk).
  Qed.
End Stores.
