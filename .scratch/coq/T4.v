From Coq Require Import List Arith NArith ZArith Lia Bool Permutation.
From Coq Require Import ZifyBool ZifyNat ZifyN.
From PB Require Import Base.PBytes Wire.WireModel Wire.VarintP Wire.ScanP.
From PB Require Import Msg.MsgSchema Msg.MsgValue Msg.MsgUtf8 Msg.MsgEnc Msg.MsgDec Msg.MsgValid.
From PB Require Import Msg.MsgWireP Msg.MsgScalarP Msg.MsgAssocP Msg.MsgSizeP Msg.MsgRoundP Msg.MergeModel.
Ltac Zify.zify_post_hook ::= Z.div_mod_to_equations.
Import ListNotations.
Open Scope N_scope.

(* ---------- parsers on extended input ---------- *)
Lemma msg_dec_tag_ext bs num typ r y :
  dec_tag bs = Ok (num, typ, r) -> dec_tag (bs ++ y) = Ok (num, typ, r ++ y).
Proof.
  intros H. apply dec_tag_iff in H. destruct H as (p & -> & Ht). rewrite <- app_assoc.
  apply dec_tag_complete. exact Ht.
Qed.
Lemma msg_parse_val_ext dep num typ bs v r y :
  parse_val dep num typ bs = Ok (v, r) -> exists v', parse_val dep num typ (bs ++ y) = Ok (v', r ++ y).
Proof.
  intros H. apply parse_val_sound in H. destruct H as (val & -> & Hw). rewrite <- app_assoc.
  apply parse_val_complete. exact Hw.
Qed.
Lemma msg_firstn_len {A} (a b : list A) : firstn (length a) (a ++ b) = a.
Proof. induction a as [|x a IH]; [reflexivity|]. cbn [length app firstn]. now rewrite IH. Qed.

(* ---------- the order of the fields in the encoding ---------- *)
Lemma msg_enc_body_order S tid fs unk :
  msg_enc_body S tid (VMsg fs unk) =
  flat_map (fun p => snd (msg_enc_chunk (msg_enc_body S) (nth tid S []) p)) (msg_field_order (nth tid S []) fs) ++ unk.
Proof.
  set (md := nth tid S []). set (h := fun p => snd (msg_enc_chunk (msg_enc_body S) md p)).
  unfold msg_field_order. fold md. set (K := map (fun p => (msg_field_key md p, p)) fs).
  cbn [msg_enc_body]. fold md. f_equal.
  assert (E : map (fun p => msg_enc_chunk (msg_enc_body S) md p) fs = map (fun x => (fst x, h (snd x))) K).
  { unfold K. rewrite map_map. apply map_ext. intros p. cbn [fst snd]. unfold h, msg_field_key, msg_enc_chunk.
    destruct (msg_find_field md (fst p)); reflexivity. }
  rewrite E, msg_chunk_sort_map. rewrite map_map. cbn [snd].
  rewrite flat_map_concat_map, map_map. reflexivity.
Qed.
Lemma msg_field_order_perm md fs : Permutation (msg_field_order md fs) fs.
Proof.
  unfold msg_field_order. rewrite (Permutation_map snd (msg_chunk_sort_perm _)). rewrite map_map. cbn [snd].
  rewrite map_id. reflexivity.
Qed.

(* ---------- small facts about the accumulator operations ---------- *)
Lemma msg_append_field_app fd v vs fs :
  msg_append_field fd vs (msg_append_field fd [v] fs) = msg_append_field fd (v :: vs) fs.
Proof.
  unfold msg_append_field. destruct vs as [|w vs]; [reflexivity|].
  rewrite msg_fget_fset_same, msg_fset_fset_same. rewrite <- app_assoc. reflexivity.
Qed.
Lemma msg_merge_fields_none mrg md P :
  fold_left (fun acc p => match acc with Some fs => msg_merge_one mrg md fs p | None => None end) P None = None.
Proof. induction P as [|p P IH]; [reflexivity|exact IH]. Qed.
Lemma msg_merge_fields_cons mrg md accf p P :
  msg_merge_fields mrg md accf (p :: P) =
  match msg_merge_one mrg md accf p with Some fs => msg_merge_fields mrg md fs P | None => None end.
Proof.
  unfold msg_merge_fields. cbn [fold_left]. destruct (msg_merge_one mrg md accf p); [reflexivity|apply msg_merge_fields_none].
Qed.

Section MergeDec.
  Variable slow : bool.
  Variable S : schema.
  Notation dm := (msg_decode_msg slow S).
  Notation eb := (msg_enc_body S).

  (* decoding the encoding of v into any accumulator, followed by [tail]: the accumulator becomes
     the merge, and the loop continues with [tail] *)
  Definition msg_mrg_stmt (v : value) : Prop :=
    forall dep tid, msg_typed slow S dep tid v = true -> msg_sizes_ok S tid v = true ->
    forall (acc0 : msg_macc) grp tail g,
      (length (eb tid v ++ tail) < length g)%nat ->
      exists (m : msg_macc) g2,
        msg_merge_d S dep tid (VMsg (fst acc0) (snd acc0)) v = Some (VMsg (fst m) (snd m)) /\
        (length tail < length g2)%nat /\
        dm dep tid grp g (eb tid v ++ tail) acc0 = dm dep tid grp g2 tail m.
  Definition msg_mrg_stmt_deep (v : value) : Prop :=
    msg_mrg_stmt v /\ match v with VEntry _ v' => msg_mrg_stmt v' | _ => True end.

  Section InMsg.
    Variables (d : nat) (tid : nat) (md : mdesc) (grp : N).
    Hypothesis Hmd : nth_error S tid = Some md.
    Notation has2 := (match d with O => false | _ => true end).
    Notation tv2 := (fun t x => match d with O => false | Datatypes.S d1 => msg_typed slow S d1 t x end).

    (* the unknown section, followed by more input *)
    Lemma msg_unknown_loop_k : forall gf u g accf pre tail,
      msg_unknown_ok slow md has2 gf u = true -> (length (u ++ tail) < length g)%nat ->
      exists g2, (length tail < length g2)%nat /\
        dm (Datatypes.S d) tid grp g (u ++ tail) (accf, pre) = dm (Datatypes.S d) tid grp g2 tail (accf, pre ++ u).
    Proof.
      induction gf as [|x0 gf IH]; intros u g accf pre tail Hok Hg; [discriminate|].
      destruct u as [|b0 u0].
      - exists g. cbn [app] in *. rewrite app_nil_r. split; [exact Hg|reflexivity].
      - cbn [msg_unknown_ok] in Hok.
        destruct (dec_tag (b0 :: u0)) as [[[num typ] r]|e] eqn:Hdt; [|discriminate].
        destruct (parse_val default_dep num typ r) as [[w r']|e] eqn:Hpv; [|discriminate].
        repeat (apply andb_true_iff in Hok; destruct Hok as [Hok ?]).
        rename H into Hrec. rename H0 into Hlt. rename H1 into Heq2. rename H2 into Heq1. rename H3 into Hrej.
        rename H4 into Ht4.
        apply msg_bytes_eqb_eq in Heq2.
        destruct g as [|x g]; [cbn in Hg; lia|].
        rewrite (msg_dm_unfold slow S d tid grp md x g ((b0 :: u0) ++ tail) (accf, pre) Hmd).
        cbn [app]. change (b0 :: u0 ++ tail) with ((b0 :: u0) ++ tail).
        rewrite (msg_dec_tag_ext _ _ _ _ tail Hdt).
        replace (msg_max_num <? num) with false by lia.
        apply negb_true_iff in Ht4. rewrite Ht4. cbv zeta.
        rewrite msg_rejects_step; [|exact Hrej].
        unfold msg_unknown. destruct (msg_parse_val_ext _ _ _ _ _ _ tail Hpv) as (w' & Hpv'). rewrite Hpv'.
        cbn [fst snd].
        assert (Hlr : (length r' <= length r)%nat).
        { pose proof (f_equal (@length byte) Heq2) as Hl. rewrite app_length in Hl. lia. }
        assert (Hq : firstn (length (r ++ tail) - length (r' ++ tail)) (r ++ tail) = firstn (length r - length r') r).
        { rewrite !app_length. replace (length r + length tail - (length r' + length tail))%nat with (length r - length r')%nat by lia.
          set (q := firstn (length r - length r') r) in *.
          assert (Hql : length q = (length r - length r')%nat).
          { pose proof (f_equal (@length byte) Heq2) as Hl. rewrite app_length in Hl. lia. }
          rewrite <- Heq2 at 2. rewrite <- app_assoc. rewrite <- Hql. apply msg_firstn_len. }
        rewrite Hq.
        assert (Hlen' : (length (r' ++ tail) < length g)%nat).
        { cbn [length app] in Hg. rewrite !app_length in *. 
          assert (length r < length (b0 :: u0))%nat by (apply Nat.ltb_lt; exact Hlt). cbn [length] in *. lia. }
        match goal with |- context [msg_decode_msg _ _ _ _ _ g (r' ++ tail) (accf, ?p)] =>
          destruct (IH r' g accf p tail Hrec Hlen') as (g2 & Hg2 & E) end.
        exists g2. split; [exact Hg2|]. rewrite E. f_equal. f_equal.
        rewrite <- !app_assoc. f_equal.
        destruct slow; apply msg_bytes_eqb_eq in Heq1.
        + (* raw tag *)
          set (t := firstn (length (b0 :: u0) - length r) (b0 :: u0)) in *.
          assert (Htl : length t = (length (b0 :: u0) - length r)%nat).
          { pose proof (f_equal (@length byte) Heq1) as Hl. rewrite app_length in Hl. lia. }
          assert (Ht : firstn (length ((b0 :: u0) ++ tail) - length (r ++ tail)) ((b0 :: u0) ++ tail) = t).
          { rewrite !app_length. replace (length (b0 :: u0) + length tail - (length r + length tail))%nat with (length t) by lia.
            rewrite <- Heq1. rewrite <- app_assoc. apply msg_firstn_len. }
          rewrite Ht, Heq2. exact Heq1.
        + rewrite Heq2. exact Heq1.
    Qed.

    (* ---------- one singular scalar ---------- *)
    Lemma msg_mrg_scalar fd sk s accf u tail g :
      msg_find_field md (f_num fd) = Some fd -> f_kind fd = KS sk -> msg_not_map fd ->
      1 <= f_num fd -> f_num fd <= msg_max_num ->
      sk_ok sk s = true -> msg_wval_ok (sk_enc sk s) = true -> msg_str_valid sk (msg_field_utf8 slow fd) s = true ->
      (length (msg_enc_elem eb (f_num fd) (f_kind fd) (VS s) ++ tail) < length g)%nat ->
      exists g2, (length tail < length g2)%nat /\
        dm (Datatypes.S d) tid grp g (msg_enc_elem eb (f_num fd) (f_kind fd) (VS s) ++ tail) (accf, u) =
        dm (Datatypes.S d) tid grp g2 tail
           ((if card_repeated (f_card fd) then msg_append_field fd [VS s] accf else msg_set_field md fd (VS s) accf), u).
    Proof.
      intros Hf Hk Hnm Hlo Hhi Hok Hw Hstr Hg. rewrite Hk in *. cbn [msg_enc_elem] in *. rewrite <- app_assoc in *.
      apply (msg_dm_field slow S d tid md grp g (f_num fd) (sk_wt sk) (msg_enc_scalar sk s) tail (accf, u));
        try assumption; [destruct sk; cbn; lia|destruct sk; cbn; lia|].
      intros tagraw. apply (msg_step_scalar slow md _ _ fd sk s tagraw tail (accf, u)); assumption.
    Qed.

    (* ---------- repeated, expanded: every element is decoded into a fresh message ---------- *)
    Lemma msg_mrg_elems fd u :
      msg_find_field md (f_num fd) = Some fd -> msg_not_map fd ->
      1 <= f_num fd -> f_num fd <= msg_max_num -> card_repeated (f_card fd) = true ->
      forall vs accf tail g, Forall (msg_elem_good slow S d fd) vs ->
        (length (flat_map (fun e => msg_enc_elem eb (f_num fd) (f_kind fd) e) vs ++ tail) < length g)%nat ->
        exists g2, (length tail < length g2)%nat /\
          dm (Datatypes.S d) tid grp g (flat_map (fun e => msg_enc_elem eb (f_num fd) (f_kind fd) e) vs ++ tail) (accf, u) =
          dm (Datatypes.S d) tid grp g2 tail (msg_append_field fd vs accf, u).
    Proof.
      intros Hf Hnm Hlo Hhi Hrep. induction vs as [|v vs IH]; intros accf tail g Hall Hg.
      - exists g. cbn [flat_map app] in *. split; [exact Hg|reflexivity].
      - inversion Hall as [|? ? (Hty & Hsz & Hst) Hvs]; subst.
        cbn [flat_map] in *. rewrite <- app_assoc in *.
        destruct (msg_elem_step slow S d tid md grp Hmd fd v accf u _ g Hf Hnm Hlo Hhi Hty Hsz Hst (or_introl Hrep) Hg)
          as (g1 & Hg1 & E1).
        rewrite E1, Hrep.
        destruct (IH (msg_append_field fd [v] accf) tail g1 Hvs Hg1) as (g2 & Hg2 & E2).
        exists g2. split; [exact Hg2|]. rewrite E2. rewrite msg_append_field_app. reflexivity.
    Qed.

    (* ---------- map entries: upserts ---------- *)
    Lemma msg_mrg_entries fd kk kutf8 vdef d1 u :
      d = Datatypes.S d1 ->
      msg_find_field md (f_num fd) = Some fd -> f_card fd = CMap kk kutf8 vdef ->
      1 <= f_num fd -> f_num fd <= msg_max_num ->
      forall es accf tail g,
        Forall (msg_entry_good slow S fd kk kutf8 d1) es ->
        (length (flat_map (fun e => msg_enc_entry eb (f_num fd) kk (f_kind fd) e) es ++ tail) < length g)%nat ->
        exists g2, (length tail < length g2)%nat /\
          dm (Datatypes.S d) tid grp g (flat_map (fun e => msg_enc_entry eb (f_num fd) kk (f_kind fd) e) es ++ tail) (accf, u) =
          dm (Datatypes.S d) tid grp g2 tail
             (match es with [] => accf | _ => msg_fset accf (f_num fd) (msg_merge_entries (msg_fget accf (f_num fd)) es) end, u).
    Proof.
      intros Hd Hf Hc Hlo Hhi. induction es as [|e es IH]; intros accf tail g Hall Hg.
      - exists g. cbn [flat_map app] in *. split; [exact Hg|reflexivity].
      - pose proof (Forall_inv Hall) as (Hty & Hsz & Hst). pose proof (Forall_inv_tail Hall) as Hes.
        destruct e as [s|fs' u'|key v]; try (cbn [msg_typed_entry] in Hty; discriminate).
        cbn [flat_map] in *. rewrite <- app_assoc in *.
        destruct Hst as [_ Hstv].
        destruct (msg_map_entry_step slow S d tid md grp Hmd fd kk kutf8 vdef d1 key v accf u _ g
                    Hd Hf Hc Hlo Hhi Hty Hsz Hstv Hg) as (g1 & Hg1 & E1).
        rewrite E1.
        destruct (IH (msg_fset accf (f_num fd) (msg_map_put (msg_fget accf (f_num fd)) key v)) tail g1 Hes Hg1)
          as (g2 & Hg2 & E2).
        exists g2. split; [exact Hg2|]. rewrite E2. f_equal. f_equal.
        destruct es as [|e2 es2]; [reflexivity|].
        rewrite msg_fget_fset_same, msg_fset_fset_same. reflexivity.
    Qed.
  End InMsg.
End MergeDec.
