From Coq Require Import List Arith NArith ZArith Lia Bool Permutation.
From Coq Require Import ZifyBool ZifyNat ZifyN.
From PB Require Import Base.PBytes Wire.WireModel Wire.VarintP Wire.ScanP.
From PB Require Import Msg.MsgSchema Msg.MsgValue Msg.MsgUtf8 Msg.MsgEnc Msg.MsgDec Msg.MsgValid.
From PB Require Import Msg.MsgWireP Msg.MsgScalarP Msg.MsgAssocP Msg.MsgSizeP Msg.MsgRoundP Msg.MergeModel.
From X Require Import T4 T4b.
Ltac Zify.zify_post_hook ::= Z.div_mod_to_equations.
Import ListNotations.
Open Scope N_scope.

Section MergeDec3.
  Variable slow : bool.
  Variable S : schema.
  Notation dm := (msg_decode_msg slow S).
  Notation eb := (msg_enc_body S).

  Section InMsg3.
    Variables (d : nat) (tid : nat) (md : mdesc) (grp : N).
    Hypothesis Hmd : nth_error S tid = Some md.
    Notation has2 := (match d with O => false | _ => true end).
    Notation tv2 := (fun t x => match d with O => false | Datatypes.S d1 => msg_typed slow S d1 t x end).

    Definition msg_mchunk_good (p : N * list value) : Prop :=
      msg_typed_chunk slow (msg_typed slow S d) tv2 has2 md p = true /\
      msg_szok_chunk (msg_size_body S) (msg_sizes_ok S) md p = true /\
      Forall (msg_mrg_stmt_deep slow S) (snd p).

    Lemma msg_mrg_chunks : forall P accf u tail g,
      Forall msg_mchunk_good P ->
      (length (flat_map (fun p => snd (msg_enc_chunk eb md p)) P ++ tail) < length g)%nat ->
      exists accf' g2,
        msg_merge_fields (msg_merge_d S d) md accf P = Some accf' /\
        (length tail < length g2)%nat /\
        dm (Datatypes.S d) tid grp g (flat_map (fun p => snd (msg_enc_chunk eb md p)) P ++ tail) (accf, u) =
        dm (Datatypes.S d) tid grp g2 tail (accf', u).
    Proof.
      induction P as [|p P IH]; intros accf u tail g Hgood Hg.
      - exists accf, g. cbn [flat_map app] in *. split; [reflexivity|split; [exact Hg|reflexivity]].
      - pose proof (Forall_inv Hgood) as (Hty & Hsz & Hdeep). pose proof (Forall_inv_tail Hgood) as HgoodP.
        cbn [flat_map] in *. rewrite <- app_assoc in *.
        unfold msg_typed_chunk in Hty. unfold msg_szok_chunk in Hsz.
        destruct (msg_find_field md (fst p)) as [fd|] eqn:Hf; [|discriminate].
        assert (Hc : snd (msg_enc_chunk eb md p) = msg_enc_field eb fd (snd p))
          by (unfold msg_enc_chunk; rewrite Hf; reflexivity).
        rewrite Hc in *.
        pose proof (msg_find_field_num _ _ _ Hf) as Hnum.
        rewrite <- Hnum in Hf.
        destruct (msg_mrg_field slow S d tid md grp Hmd fd (snd p) accf u _ g Hf Hty Hsz Hdeep Hg)
          as (accf1 & g1 & Hm1 & Hg1 & E1).
        destruct (IH accf1 u tail g1 HgoodP Hg1) as (accf' & g2 & Hm2 & Hg2 & E2).
        exists accf', g2. split; [|split; [exact Hg2|rewrite E1; exact E2]].
        rewrite msg_merge_fields_cons.
        replace p with (f_num fd, snd p) by (destruct p; cbn [fst snd] in *; congruence).
        rewrite Hm1. exact Hm2.
    Qed.
  End InMsg3.

  (* ---------- the induction over values ---------- *)
  Lemma msg_mrg_stmt_all : forall v, msg_mrg_stmt_deep slow S v.
  Proof.
    induction v as [s|fs unk IH|k v IH] using msg_value_ind.
    - split; [|exact I]. intros dep tid Hty. discriminate.
    - split; [|exact I]. intros dep tid Hty Hsz acc0 grp tail g Hg.
      destruct (msg_typed_unfold slow S dep tid fs unk Hty) as (d & md & -> & Hmd & Hsorted & Hchunks & Hone & Hunk).
      pose proof (msg_sizes_ok_unfold S tid fs unk Hsz) as Hszc.
      rewrite (msg_nth_error_nth S tid md Hmd) in Hszc.
      rewrite msg_enc_body_order in *. rewrite (msg_nth_error_nth S tid md Hmd) in *. rewrite <- app_assoc in *.
      set (P := msg_field_order md fs) in *.
      assert (HinP : forall p, In p P -> In p fs)
        by (intros p Hp; eapply Permutation_in; [apply msg_field_order_perm|exact Hp]).
      rewrite forallb_forall in Hchunks, Hszc.
      assert (Hgood : Forall (msg_mchunk_good d md) P).
      { apply Forall_forall. intros p Hp. specialize (HinP p Hp). repeat split.
        - apply Hchunks, HinP.
        - apply Hszc, HinP.
        - rewrite Forall_forall in IH. apply IH, HinP. }
      destruct acc0 as [afs au].
      destruct (msg_mrg_chunks d tid md grp Hmd P afs au (unk ++ tail) g Hgood Hg) as (accf' & g1 & Hm & Hg1 & E1).
      destruct (msg_unknown_loop_k slow S d tid md grp Hmd (x00 :: unk) unk g1 accf' au tail Hunk Hg1) as (g2 & Hg2 & E2).
      exists (accf', au ++ unk), g2. split; [|split; [exact Hg2|rewrite E1; exact E2]].
      cbn [msg_merge_d fst snd]. rewrite (msg_nth_error_nth S tid md Hmd). fold P. rewrite Hm. reflexivity.
    - split; [intros dep tid Hty; discriminate|]. exact (proj1 IH).
  Qed.
End MergeDec3.

(* ---------- C07 ---------- *)

(* UnmarshalOptions{Merge: true}: decoding Marshal(b) into any message a gives Merge(a, b) *)
Theorem msg_decode_into_merge slow S limit tid b afs au :
  msg_valid slow S limit tid b = true ->
  exists m, msg_merge S limit tid (VMsg afs au) b = Some m /\
            msg_decode_into slow S limit tid (msg_encode S tid b) (VMsg afs au) = DOk m.
Proof.
  unfold msg_valid. intros H. apply andb_true_iff in H. destruct H as [Hsz Hty].
  destruct (proj1 (msg_mrg_stmt_all slow S b) limit tid Hty Hsz (afs, au) 0 [] (x00 :: msg_enc_body S tid b ++ []))
    as (m & g2 & Hm & Hg2 & E); [cbn [length]; lia|].
  exists (VMsg (fst m) (snd m)). split; [exact Hm|].
  unfold msg_decode_into, msg_encode. cbn [msg_macc_of]. rewrite app_nil_r in E. rewrite E.
  destruct b as [s|fs unk|k v]; try discriminate.
  destruct (msg_typed_unfold slow S limit tid fs unk Hty) as (d & md & -> & Hmd & _).
  rewrite (msg_dm_end0 slow S d tid md g2 m Hmd) by lia. reflexivity.
Qed.

(* Clone: merging into the empty message gives the message itself *)
Theorem msg_merge_empty_l slow S limit tid m :
  msg_valid slow S limit tid m = true -> msg_clone S limit tid m = Some m.
Proof.
  intros Hv. destruct (msg_decode_into_merge slow S limit tid m [] [] Hv) as (m' & Hm & Hd).
  pose proof (msg_roundtrip slow S limit tid m Hv) as Hr. unfold msg_decode in Hr.
  unfold msg_empty in Hr. rewrite Hd in Hr. inversion Hr; subst m'. exact Hm.
Qed.

(* Merge(a, b) is what decoding Marshal(a) || Marshal(b) gives *)
Theorem msg_merge_eq_decode_concat slow S limit tid a b :
  msg_valid slow S limit tid a = true -> msg_valid slow S limit tid b = true ->
  exists m, msg_merge S limit tid a b = Some m /\
            msg_decode slow S limit tid (msg_encode S tid a ++ msg_encode S tid b) = DOk m.
Proof.
  intros Ha Hb.
  pose proof (msg_merge_empty_l slow S limit tid a Ha) as Hcl. unfold msg_clone in Hcl.
  unfold msg_valid in Ha, Hb. apply andb_true_iff in Ha. destruct Ha as [Hsza Htya].
  apply andb_true_iff in Hb. destruct Hb as [Hszb Htyb].
  destruct a as [s|afs au|k v]; try discriminate.
  destruct b as [s|bfs bu|k v]; try discriminate.
  (* a, followed by the encoding of b *)
  destruct (proj1 (msg_mrg_stmt_all slow S (VMsg afs au)) limit tid Htya Hsza ([], []) 0 (msg_enc_body S tid (VMsg bfs bu))
                  (x00 :: msg_enc_body S tid (VMsg afs au) ++ msg_enc_body S tid (VMsg bfs bu)))
    as (m1 & g1 & Hm1 & Hg1 & E1); [cbn [length]; lia|].
  cbn [fst snd] in Hm1. unfold msg_empty in Hcl. rewrite Hcl in Hm1.
  destruct m1 as [mf mu]. cbn [fst snd] in Hm1.
  assert (Hfs : mf = afs /\ mu = au) by (inversion Hm1; split; reflexivity).
  destruct Hfs as [-> ->]. clear Hm1.
  (* then b *)
  destruct (proj1 (msg_mrg_stmt_all slow S (VMsg bfs bu)) limit tid Htyb Hszb (afs, au) 0 [] g1)
    as (m2 & g2 & Hm2 & Hg2 & E2); [rewrite app_nil_r; exact Hg1|].
  rewrite app_nil_r in E2.
  exists (VMsg (fst m2) (snd m2)). split.
  - unfold msg_merge. exact Hm2.
  - unfold msg_decode, msg_decode_into, msg_encode, msg_empty. cbn [msg_macc_of]. rewrite E1.
    match goal with |- match ?X with DOk _ => _ | DErr _ => _ end = _ =>
      replace X with (msg_decode_msg slow S limit tid 0 g2 [] m2) by (symmetry; exact E2) end.
    destruct (msg_typed_unfold slow S limit tid bfs bu Htyb) as (d & md & -> & Hmd & _).
    rewrite (msg_dm_end0 slow S d tid md g2 m2 Hmd) by lia. reflexivity.
Qed.

(* decoding the encoding of a valid message followed by more input: the rest is decoded into it *)
Theorem msg_decode_app_encoded slow S limit tid a y :
  msg_valid slow S limit tid a = true ->
  exists g, (length y < length g)%nat /\
    msg_decode_msg slow S limit tid 0 (x00 :: msg_encode S tid a ++ y) (msg_encode S tid a ++ y) ([], []) =
    msg_decode_msg slow S limit tid 0 g y (msg_macc_of a).
Proof.
  intros Ha. pose proof (msg_merge_empty_l slow S limit tid a Ha) as Hcl. unfold msg_clone in Hcl.
  unfold msg_valid in Ha. apply andb_true_iff in Ha. destruct Ha as [Hsza Htya].
  destruct (proj1 (msg_mrg_stmt_all slow S a) limit tid Htya Hsza ([], []) 0 y (x00 :: msg_enc_body S tid a ++ y))
    as (m1 & g1 & Hm1 & Hg1 & E1); [cbn [length]; lia|].
  exists g1. split; [exact Hg1|]. unfold msg_encode. rewrite E1.
  cbn [fst snd] in Hm1. unfold msg_empty in Hcl. rewrite Hcl in Hm1. inversion Hm1; subst a. destruct m1; reflexivity.
Qed.

(* the clause "Unmarshal(x || y) = Merge(Unmarshal x, Unmarshal y)" is false for non-canonical y:
   an explicit zero of an implicit-presence field clears the field on the wire (finding FA6) *)
Definition ex_fa6 : schema := [[mkF 1 (KS SkInt32) CImp None false false false]].
Lemma msg_concat_eq_merge_refuted_FA6 :
  exists S x y vx vy vxy m,
    msg_decode false S 100 0 x = DOk vx /\ msg_decode false S 100 0 y = DOk vy /\
    msg_decode false S 100 0 (x ++ y) = DOk vxy /\ msg_merge S 100 0 vx vy = Some m /\ m <> vxy.
Proof.
  exists ex_fa6, [n2b 8; n2b 3], [n2b 8; n2b 0]. do 4 eexists.
  split; [vm_compute; reflexivity|]. split; [vm_compute; reflexivity|].
  split; [vm_compute; reflexivity|]. split; [vm_compute; reflexivity|]. discriminate.
Qed.
