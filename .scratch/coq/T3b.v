From Coq Require Import List NArith ZArith Bool Lia.
From Coq Require Import ZifyBool ZifyNat ZifyN.
From PB Require Import Base.PBytes Wire.WireModel Msg.MsgSchema Msg.MsgValue Msg.MsgEnc Msg.MsgDec Msg.MsgValid
  Msg.MsgAssocP Msg.MsgSizeP Msg.MsgRoundP.
From X Require Import InitModel2 T1 T2 T3a.
Import ListNotations.
Open Scope N_scope.

Section Flag.
  Variable S : schema.
  Variable ni : nat -> bool.
  Hypothesis Hwf : msg_init_wf S ni.
  Notation dm := (msg_decode_msg false S).
  Notation im := (msg_init_msg S ni).

  (* both passes stop at the same place; and decoding [bs] into an accumulator whose sub-values are
     initialized, with the flag set, gives an initialized message *)
  Definition msg_flag_stmt (d : nat) : Prop :=
    forall tid grp g bs acc acc' rest g2 f rest2,
      dm d tid grp g bs acc = DOk (acc', rest) ->
      im d tid grp g2 bs = DOk (f, rest2) ->
      rest2 = rest /\
      (f = true -> msg_subs_ok S (nth tid S []) (fst acc) ->
       msg_check_init S tid (VMsg (fst acc') (snd acc')) = true).

  Definition msg_isub2 (d : nat) : option msg_init_t :=
    match d with O => None | Datatypes.S d1 => Some (im d1) end.

  Lemma msg_subs_ok_old_sub md fd fs t :
    msg_subs_ok S md fs -> msg_find_field md (f_num fd) = Some fd ->
    (f_kind fd = KMsg t \/ f_kind fd = KGrp t) ->
    msg_subs_ok S (nth t S []) (fst (msg_old_sub fd fs)).
  Proof.
    intros Hs Hf Hk. unfold msg_old_sub. destruct (card_repeated (f_card fd)); [intros p []|].
    destruct (msg_fget fs (f_num fd)) as [|v vs] eqn:E; [intros p []|].
    assert (Hne : msg_fget fs (f_num fd) <> []) by (rewrite E; discriminate).
    pose proof (Hs _ (msg_fget_in fs (f_num fd) Hne) fd t Hf Hk v) as Hv.
    rewrite E in Hv. specialize (Hv (or_introl eq_refl)).
    destruct v as [s|fs0 u0|k0 v0]; cbn [msg_macc_of fst]; try (intros p []).
    cbn [msg_check_elem msg_check_init] in Hv. apply andb_true_iff in Hv. destruct Hv as [_ Hv].
    rewrite forallb_forall in Hv. intros p Hp. apply msg_chunk_elems_ok. exact (Hv p Hp).
  Qed.

  Section Step.
    Variables (d : nat) (md : mdesc).
    Hypothesis Hmdwf : msg_md_wf ni md.
    Hypothesis IHd : msg_flag_stmt d.

    (* storing an initialized sub-message *)
    Lemma msg_inv_store_sub fd t m fs st f :
      msg_find_field md (f_num fd) = Some fd -> (f_kind fd = KMsg t \/ f_kind fd = KGrp t) ->
      (forall kk ku vd, f_card fd <> CMap kk ku vd) ->
      (f = true -> msg_subs_ok S md fs -> msg_check_init S t (VMsg (fst m) (snd m)) = true) ->
      msg_inv S md fs st ->
      msg_inv S md (msg_store_sub md fd m fs) (msg_iupd md fd f (msg_ihit md fd st)).
    Proof.
      intros Hf Hk Hnm Hm [Hmask Hsub].
      assert (Hkeeps : msg_keeps md fs (msg_store_sub md fd m fs)).
      { unfold msg_store_sub. destruct (card_repeated (f_card fd));
          [apply msg_append_field_keeps|apply (msg_set_field_keeps ni md Hmdwf); exact Hf]. }
      assert (Hpres : msg_present (msg_store_sub md fd m fs) (f_num fd) = true).
      { unfold msg_store_sub. destruct (card_repeated (f_card fd)).
        - apply msg_append_field_present. discriminate.
        - apply (msg_set_field_present ni md Hmdwf); [exact Hf|]. destruct (f_card fd); reflexivity. }
      split.
      - (* mask *)
        assert (Hm2 : msg_mask_ok md (msg_store_sub md fd m fs) (fst (msg_ihit md fd st))).
        { unfold msg_ihit. cbn [fst]. destruct (f_ext fd) eqn:Hx.
          - rewrite N.lor_0_r. exact (msg_mask_ok_keeps _ _ _ _ Hkeeps Hmask).
          - apply msg_mask_ok_hit; [exact (msg_mask_ok_keeps _ _ _ _ Hkeeps Hmask)|]. intros _ _. exact Hpres. }
        unfold msg_iupd. destruct f; [exact Hm2|]. destruct (msg_tracks_init md fd); exact Hm2.
      - (* sub-values *)
        intros Hok.
        assert (Hf_true : f = true /\ snd st = true).
        { unfold msg_iupd, msg_ihit in Hok. destruct f; [split; [reflexivity|exact Hok]|].
          rewrite (wf_oneof ni md Hmdwf fd t (proj1 (msg_find_in_self md fd _ Hf)) Hk) in Hok. discriminate. }
        destruct Hf_true as [-> Hst]. specialize (Hsub Hst). specialize (Hm eq_refl Hsub).
        apply (msg_subs_ok_store md S fs _ (f_num fd) Hsub). intros p Hp.
        unfold msg_store_sub in Hp. destruct (card_repeated (f_card fd)).
        + apply msg_in_append_field in Hp. destruct Hp as [->|Hp]; [|left; exact Hp].
          right. split; [reflexivity|]. cbn [snd]. intros x Hx. apply in_app_or in Hx.
          destruct Hx as [Hx|[<-|[]]]; [left; exact Hx|right].
          intros fd' t' Hf' Hk'. rewrite Hf in Hf'. inversion Hf'; subst fd'.
          assert (t' = t) as -> by (destruct Hk as [Hk|Hk]; destruct Hk' as [Hk'|Hk']; congruence).
          exact Hm.
        + apply msg_in_set_field in Hp. destruct Hp as [->|Hp]; [|left; exact Hp].
          right. split; [reflexivity|]. cbn [snd]. intros x [<-|[]]. right.
          intros fd' t' Hf' Hk'. rewrite Hf in Hf'. inversion Hf'; subst fd'.
          assert (t' = t) as -> by (destruct Hk as [Hk|Hk]; destruct Hk' as [Hk'|Hk']; congruence).
          exact Hm.
    Qed.

    (* storing a scalar *)
    Lemma msg_inv_store_scalar fd sk s fs st :
      msg_find_field md (f_num fd) = Some fd -> f_kind fd = KS sk ->
      (forall kk ku vd, f_card fd <> CMap kk ku vd) ->
      msg_inv S md fs st ->
      msg_inv S md (if card_repeated (f_card fd) then msg_append_field fd [VS s] fs else msg_set_field md fd (VS s) fs)
              (msg_ihit md fd st).
    Proof.
      intros Hf Hk Hnm [Hmask Hsub].
      set (fs' := if card_repeated (f_card fd) then msg_append_field fd [VS s] fs else msg_set_field md fd (VS s) fs).
      assert (Hkeeps : msg_keeps md fs fs').
      { unfold fs'. destruct (card_repeated (f_card fd));
          [apply msg_append_field_keeps|apply (msg_set_field_keeps ni md Hmdwf); exact Hf]. }
      split.
      - unfold msg_ihit. cbn [fst]. destruct (f_ext fd) eqn:Hx.
        + rewrite N.lor_0_r. exact (msg_mask_ok_keeps _ _ _ _ Hkeeps Hmask).
        + apply msg_mask_ok_hit; [exact (msg_mask_ok_keeps _ _ _ _ Hkeeps Hmask)|].
          intros i Hi. destruct (msg_bit_of_req md _ i Hi) as (fd' & Hf' & Hr & _).
          rewrite Hf in Hf'. inversion Hf'; subst fd'. unfold fs'.
          unfold msg_is_req in Hr. destruct (f_card fd) eqn:Hc; try discriminate. cbn [card_repeated].
          apply (msg_set_field_present ni md Hmdwf); [exact Hf|]. rewrite Hc. reflexivity.
      - unfold msg_ihit. cbn [snd]. intros Hst. specialize (Hsub Hst).
        apply (msg_subs_ok_store md S fs _ (f_num fd) Hsub). intros p Hp. unfold fs' in Hp.
        assert (Hscalar : forall x : value, (forall fd' t, msg_find_field md (f_num fd) = Some fd' ->
                     (f_kind fd' = KMsg t \/ f_kind fd' = KGrp t) -> msg_check_elem (msg_check_init S) t x = true)).
        { intros x fd' t Hf' Hk'. rewrite Hf in Hf'. inversion Hf'; subst fd'. destruct Hk'; congruence. }
        destruct (card_repeated (f_card fd)).
        + apply msg_in_append_field in Hp. destruct Hp as [->|Hp]; [|left; exact Hp].
          right. split; [reflexivity|]. intros x _. right. apply Hscalar.
        + apply msg_in_set_field in Hp. destruct Hp as [->|Hp]; [|left; exact Hp].
          right. split; [reflexivity|]. intros x _. right. apply Hscalar.
    Qed.

    (* the non-map branches of msg_step / msg_istep as functions of the cardinality *)
    Definition msg_step_nm (tagraw : list byte) (num typ : N) (r : list byte) (acc : msg_macc) (fd : fdesc) (c : card)
      : dres (msg_macc * list byte) :=
      match f_kind fd with
      | KMsg tid =>
        if typ =? 2 then
          match dec_bytes r with
          | Err _ => DErr DParse
          | Ok (payload, r') =>
            match msg_whole (dm d) tid payload (msg_old_sub fd (fst acc)) with
            | DErr e => DErr e
            | DOk m => DOk ((msg_store_sub md fd m (fst acc), snd acc), r')
            end
          end
        else msg_unknown tagraw num typ r acc
      | KGrp tid =>
        if typ =? 3 then
          match dm d tid num (x00 :: r) r (msg_old_sub fd (fst acc)) with
          | DErr e => DErr e
          | DOk (m, r') => DOk ((msg_store_sub md fd m (fst acc), snd acc), r')
          end
        else msg_unknown tagraw num typ r acc
      | KS sk =>
        if typ =? sk_wt sk then
          match parse_val 0 num typ r with
          | Err _ => DErr DParse
          | Ok (w, r') =>
            match msg_dec_scalar sk (msg_field_utf8 false fd) w with
            | None => msg_unknown tagraw num typ r acc
            | Some (DErr e) => DErr e
            | Some (DOk s) =>
              DOk ((if card_repeated c then msg_append_field fd [VS s] (fst acc)
                    else msg_set_field md fd (VS s) (fst acc), snd acc), r')
            end
          end
        else if (typ =? 2) && msg_packable sk && card_repeated c then
          match dec_bytes r with
          | Err _ => DErr DParse
          | Ok (payload, r') =>
            match msg_dec_packed (x00 :: payload) sk payload [] with
            | DErr e => DErr e
            | DOk vs => DOk ((msg_append_field fd vs (fst acc), snd acc), r')
            end
          end
        else msg_unknown tagraw num typ r acc
      end.

    Definition msg_istep_nm (num typ : N) (r : list byte) (st : msg_ist) (fd : fdesc) (c : card)
      : dres (msg_ist * list byte) :=
      match f_kind fd with
      | KMsg tid =>
        if typ =? 2 then
          match dec_bytes r with
          | Err _ => DErr DParse
          | Ok (payload, r') =>
            match msg_iwhole (im d) tid payload with
            | DErr e => DErr e
            | DOk f => DOk (msg_iupd md fd f (msg_ihit md fd st), r')
            end
          end
        else msg_iskip num typ r st
      | KGrp tid =>
        if typ =? 3 then
          match im d tid num (x00 :: r) r with
          | DErr e => DErr e
          | DOk (f, r') => DOk (msg_iupd md fd f (msg_ihit md fd st), r')
          end
        else msg_iskip num typ r st
      | KS sk =>
        if typ =? sk_wt sk then
          match parse_val 0 num typ r with
          | Err _ => DErr DParse
          | Ok (w, r') =>
            match msg_dec_scalar sk (msg_field_utf8 false fd) w with
            | None => msg_iskip num typ r st
            | Some (DErr e) => DErr e
            | Some (DOk _) => DOk (msg_ihit md fd st, r')
            end
          end
        else if (typ =? 2) && msg_packable sk && card_repeated c then
          match dec_bytes r with
          | Err _ => DErr DParse
          | Ok (_, r') => DOk (msg_ihit md fd st, r')
          end
        else msg_iskip num typ r st
      end.

    Lemma msg_step_nm_eq tagraw num typ r acc fd :
      msg_find_field md num = Some fd -> (forall kk ku vd, f_card fd <> CMap kk ku vd) ->
      msg_step false md (dm d) (msg_dsub2 false S d) tagraw num typ r acc = msg_step_nm tagraw num typ r acc fd (f_card fd).
    Proof.
      intros Hf Hnm. unfold msg_step, msg_step_nm. rewrite Hf.
      destruct (f_card fd) eqn:Hc; try reflexivity. exfalso. eapply Hnm. reflexivity.
    Qed.
    Lemma msg_istep_nm_eq num typ r st fd :
      msg_find_field md num = Some fd -> (forall kk ku vd, f_card fd <> CMap kk ku vd) ->
      msg_istep ni md (im d) (msg_isub2 d) num typ r st = msg_istep_nm num typ r st fd (f_card fd).
    Proof.
      intros Hf Hnm. unfold msg_istep, msg_istep_nm. rewrite Hf.
      destruct (f_card fd) eqn:Hc; try reflexivity. exfalso. eapply Hnm. reflexivity.
    Qed.

    Lemma msg_inv_append_packed fd sk vs fs st :
      msg_find_field md (f_num fd) = Some fd -> f_kind fd = KS sk -> card_repeated (f_card fd) = true ->
      msg_inv S md fs st -> msg_inv S md (msg_append_field fd vs fs) (msg_ihit md fd st).
    Proof.
      intros Hf Hk Hrep [Hmask Hsub]. split.
      - unfold msg_ihit. cbn [fst].
        assert (Hbit : (if f_ext fd then 0 else msg_req_bit (msg_req_index md (f_num fd) 0)) = 0).
        { destruct (f_ext fd); [reflexivity|]. fold (msg_bit_of md (f_num fd)).
          apply (msg_bit_of_nonreq md _ fd Hf). unfold msg_is_req. destruct (f_card fd); try discriminate; reflexivity. }
        rewrite Hbit, N.lor_0_r. exact (msg_mask_ok_keeps _ _ _ _ (msg_append_field_keeps md fd vs fs) Hmask).
      - unfold msg_ihit. cbn [snd]. intros Hst. specialize (Hsub Hst).
        apply (msg_subs_ok_store md S fs _ (f_num fd) Hsub). intros p Hp.
        apply msg_in_append_field in Hp. destruct Hp as [->|Hp]; [|left; exact Hp].
        right. split; [reflexivity|]. intros x _. right. intros fd' t Hf' Hk'.
        rewrite Hf in Hf'. inversion Hf'; subst fd'. destruct Hk'; congruence.
    Qed.

    Lemma msg_unknown_sync tagraw num typ r acc st acc' r' st' r2 :
      msg_unknown tagraw num typ r acc = DOk (acc', r') ->
      msg_iskip num typ r st = DOk (st', r2) ->
      r2 = r' /\ (msg_inv S md (fst acc) st -> msg_inv S md (fst acc') st').
    Proof.
      intros H1 H2. unfold msg_unknown in H1. unfold msg_iskip in H2.
      destruct (parse_val default_dep num typ r) as [[w rr]|e]; [|discriminate].
      inversion H1; subst. inversion H2; subst. cbn [fst]. split; [reflexivity|exact (fun H => H)].
    Qed.

    Section NonMap.
      Variables (tagraw : list byte) (num typ : N) (r : list byte) (acc : msg_macc) (st : msg_ist) (fd : fdesc).
      Hypothesis Hfd : msg_find_field md (f_num fd) = Some fd.
      Hypothesis Hnum : f_num fd = num.
      Hypothesis Hnm : forall kk ku vd, f_card fd <> CMap kk ku vd.

      Lemma msg_nm_sync acc' r' st' r2 :
        msg_step_nm tagraw num typ r acc fd (f_card fd) = DOk (acc', r') ->
        msg_istep_nm num typ r st fd (f_card fd) = DOk (st', r2) ->
        r2 = r' /\ (msg_inv S md (fst acc) st -> msg_inv S md (fst acc') st').
      Proof.
        intros Hdm Him. unfold msg_step_nm in Hdm. unfold msg_istep_nm in Him.
        destruct (f_kind fd) as [sk|t|t] eqn:Hk.
        - (* scalar *)
          destruct (typ =? sk_wt sk).
          + destruct (parse_val 0 num typ r) as [[w rr]|e]; [|discriminate].
            destruct (msg_dec_scalar sk (msg_field_utf8 false fd) w) as [[s|e]|];
              [|discriminate|exact (msg_unknown_sync _ _ _ _ _ _ _ _ _ _ Hdm Him)].
            inversion Hdm; subst acc' r'. inversion Him; subst st' r2. cbn [fst]. split; [reflexivity|].
            intros Hinv. apply (msg_inv_store_scalar fd sk s); assumption.
          + destruct ((typ =? 2) && msg_packable sk && card_repeated (f_card fd)) eqn:Hp;
              [|exact (msg_unknown_sync _ _ _ _ _ _ _ _ _ _ Hdm Him)].
            destruct (dec_bytes r) as [[payload rr]|e]; [|discriminate].
            destruct (msg_dec_packed (x00 :: payload) sk payload []) as [vs|e]; [|discriminate].
            inversion Hdm; subst acc' r'. inversion Him; subst st' r2. cbn [fst]. split; [reflexivity|].
            apply andb_true_iff in Hp. destruct Hp as [_ Hrep].
            intros Hinv. apply (msg_inv_append_packed fd sk vs); assumption.
        - (* message *)
          destruct (typ =? 2); [|exact (msg_unknown_sync _ _ _ _ _ _ _ _ _ _ Hdm Him)].
          destruct (dec_bytes r) as [[payload rr]|e]; [|discriminate].
          destruct (msg_whole (dm d) t payload (msg_old_sub fd (fst acc))) as [m|e] eqn:Hw; [|discriminate].
          destruct (msg_iwhole (im d) t payload) as [f|e] eqn:Hiw; [|discriminate].
          inversion Hdm; subst acc' r'. inversion Him; subst st' r2. cbn [fst]. split; [reflexivity|].
          intros Hinv.
          apply (msg_inv_store_sub fd t m (fst acc) st f Hfd (or_introl Hk) Hnm); [|exact Hinv].
          intros -> Hsubs. unfold msg_whole in Hw. unfold msg_iwhole in Hiw.
          destruct (dm d t 0 (x00 :: payload) payload (msg_old_sub fd (fst acc))) as [[m' rest1]|e] eqn:E1; [|discriminate].
          destruct (im d t 0 (x00 :: payload) payload) as [[f' rest2]|e] eqn:E2; [|discriminate].
          inversion Hw; subst m'. inversion Hiw; subst f'.
          exact (proj2 (IHd _ _ _ _ _ _ _ _ _ _ E1 E2) eq_refl
                       (msg_subs_ok_old_sub md fd (fst acc) t Hsubs Hfd (or_introl Hk))).
        - (* group *)
          destruct (typ =? 3); [|exact (msg_unknown_sync _ _ _ _ _ _ _ _ _ _ Hdm Him)].
          destruct (dm d t num (x00 :: r) r (msg_old_sub fd (fst acc))) as [[m rr]|e] eqn:E1; [|discriminate].
          destruct (im d t num (x00 :: r) r) as [[f rr2]|e] eqn:E2; [|discriminate].
          inversion Hdm; subst acc' r'. inversion Him; subst st' r2. cbn [fst].
          destruct (IHd _ _ _ _ _ _ _ _ _ _ E1 E2) as [Hrest Hflag]. split; [exact Hrest|].
          intros Hinv.
          apply (msg_inv_store_sub fd t m (fst acc) st f Hfd (or_intror Hk) Hnm); [|exact Hinv].
          intros -> Hsubs.
          exact (Hflag eq_refl (msg_subs_ok_old_sub md fd (fst acc) t Hsubs Hfd (or_intror Hk))).
      Qed.
    End NonMap.

    Lemma msg_step_sync tagraw num typ r acc acc' r' st st' r2 :
      msg_step false md (dm d) (msg_dsub2 false S d) tagraw num typ r acc = DOk (acc', r') ->
      msg_istep ni md (im d) (msg_isub2 d) num typ r st = DOk (st', r2) ->
      r2 = r' /\ (msg_inv S md (fst acc) st -> msg_inv S md (fst acc') st').
    Proof.
      intros Hdm Him.
      destruct (msg_find_field md num) as [fd|] eqn:Hf.
      2:{ unfold msg_step in Hdm. unfold msg_istep in Him. rewrite Hf in Hdm, Him.
          exact (msg_unknown_sync _ _ _ _ _ _ _ _ _ _ Hdm Him). }
      pose proof (msg_find_field_num _ _ _ Hf) as Hnum.
      assert (Hfd : msg_find_field md (f_num fd) = Some fd) by (rewrite Hnum; exact Hf).
      destruct (f_card fd) as [| | | | |kk ku vd] eqn:Hc.
      6:{ (* map *)
        unfold msg_step in Hdm. unfold msg_istep in Him. rewrite Hf, Hc in Hdm, Him.
        destruct d as [|d1]; cbn [msg_dsub2 msg_isub2] in Hdm, Him; [discriminate|].
        destruct (typ =? 2); [|exact (msg_unknown_sync _ _ _ _ _ _ _ _ _ _ Hdm Him)].
        destruct (dec_bytes r) as [[payload rr]|e]; [|discriminate].
        match type of Hdm with context [msg_dec_entry ?a ?b ?c ?dd ?e ?f ?g ?h ?i] =>
          destruct (msg_dec_entry a b c dd e f g h i) as [[key v]|e0]; [|discriminate] end.
        inversion Hdm; subst acc' r'. cbn [fst].
        assert (Hres : exists b, st' = (fst st, snd st && b) /\ r2 = rr).
        { destruct (f_kind fd) as [sk|t|t].
          - inversion Him; subst st' r2. exists true. rewrite andb_true_r. destruct st; split; reflexivity.
          - destruct (msg_ientry (x00 :: payload) (msg_iwhole (im d1) t) payload false) as [f|e0]; [|discriminate].
            inversion Him; subst st' r2. eexists. split; reflexivity.
          - inversion Him; subst st' r2. exists true. rewrite andb_true_r. destruct st; split; reflexivity. }
        destruct Hres as (b & -> & ->). split; [reflexivity|].
        intros [Hmask Hsub]. cbn [fst snd]. split.
        - apply (msg_mask_ok_keeps md (fst acc)); [|exact Hmask].
          intros h fdh Hfh Hr Hp. destruct (N.eq_dec h num) as [->|Hne].
          + apply msg_present_fset_same. apply msg_map_put_nonempty.
          + rewrite msg_present_fset_other by exact Hne. exact Hp.
        - intros Hb. apply andb_true_iff in Hb. destruct Hb as [Hst _]. specialize (Hsub Hst).
          apply (msg_subs_ok_store md S (fst acc) _ num Hsub). intros p Hp.
          apply msg_in_fset in Hp. destruct Hp as [->|Hp]; [|left; exact Hp].
          right. split; [reflexivity|]. cbn [snd]. intros x Hx. apply msg_in_map_put in Hx.
          destruct Hx as [->|Hx]; [right|left; exact Hx].
          intros fd' t Hf' Hk'. rewrite Hf in Hf'. inversion Hf'; subst fd'.
          cbn [msg_check_elem]. apply (proj2 Hwf).
          exact (wf_map ni md Hmdwf fd kk ku vd t (msg_find_field_in _ _ _ Hf) Hc Hk'). }
      all: assert (Hnm : forall kk ku vd, f_card fd <> CMap kk ku vd) by (intros; rewrite Hc; discriminate).
      all: rewrite (msg_step_nm_eq _ _ _ _ _ fd Hf Hnm) in Hdm; rewrite (msg_istep_nm_eq _ _ _ _ fd Hf Hnm) in Him.
      all: eapply msg_nm_sync; eassumption.
    Qed.
  End Step.
End Flag.
