From Coq Require Import List NArith ZArith Bool Lia.
From Coq Require Import ZifyBool ZifyNat ZifyN.
From PB Require Import Base.PBytes Wire.WireModel Msg.MsgSchema Msg.MsgValue Msg.MsgEnc Msg.MsgDec Msg.MsgValid
  Msg.MsgAssocP Msg.MsgSizeP Msg.MsgRoundP.
From X Require Import InitModel2 T1 T2.
Import ListNotations.
Open Scope N_scope.

(* ---------- association lists (no sortedness needed) ---------- *)
Lemma msg_fget_fset_other fs k vs h : h <> k -> msg_fget (msg_fset fs k vs) h = msg_fget fs h.
Proof.
  intros Hne. induction fs as [|[k0 v0] r IH]; cbn [msg_fset msg_fget].
  - destruct (N.eqb_spec h k); [congruence|reflexivity].
  - destruct (N.ltb_spec k k0).
    + cbn [msg_fget]. destruct (N.eqb_spec h k); [congruence|reflexivity].
    + destruct (N.eqb_spec k k0) as [->|Hk].
      * cbn [msg_fget]. destruct (N.eqb_spec h k0); [congruence|reflexivity].
      * cbn [msg_fget]. destruct (N.eqb_spec h k0); [reflexivity|exact IH].
Qed.
Lemma msg_fget_fdel_other fs k h : h <> k -> msg_fget (msg_fdel fs k) h = msg_fget fs h.
Proof.
  intros Hne. induction fs as [|[k0 v0] r IH]; cbn [msg_fdel msg_fget]; [reflexivity|].
  destruct (N.eqb_spec k k0) as [->|Hk].
  - destruct (N.eqb_spec h k0); [congruence|reflexivity].
  - cbn [msg_fget]. destruct (N.eqb_spec h k0); [reflexivity|exact IH].
Qed.
Lemma msg_in_fset fs k vs p : In p (msg_fset fs k vs) -> p = (k, vs) \/ In p fs.
Proof.
  induction fs as [|[k0 v0] r IH]; cbn [msg_fset].
  - intros [H|[]]. left. symmetry. exact H.
  - destruct (N.ltb_spec k k0).
    + intros [H|H]; [left; symmetry; exact H|right; exact H].
    + destruct (N.eqb_spec k k0) as [->|Hk].
      * intros [H|H]; [left; symmetry; exact H|right; right; exact H].
      * intros [H|H]; [right; left; exact H|]. destruct (IH H) as [E|E]; [left; exact E|right; right; exact E].
Qed.
Lemma msg_in_fdel fs k p : In p (msg_fdel fs k) -> In p fs.
Proof.
  induction fs as [|[k0 v0] r IH]; cbn [msg_fdel]; [intros []|].
  destruct (N.eqb_spec k k0); [intros H; right; exact H|].
  intros [H|H]; [left; exact H|right; exact (IH H)].
Qed.
Lemma msg_fget_in fs h : msg_fget fs h <> [] -> In (h, msg_fget fs h) fs.
Proof.
  induction fs as [|[k0 v0] r IH]; cbn [msg_fget]; [congruence|].
  destruct (N.eqb_spec h k0) as [->|Hk]; [intros _; left; reflexivity|intros H; right; exact (IH H)].
Qed.
Lemma msg_in_clear_oneof md oi num : forall fs p, In p (msg_clear_oneof md oi num fs) -> In p fs.
Proof.
  induction md as [|fd r IH]; intros fs p; cbn [msg_clear_oneof]; [exact (fun H => H)|].
  intros H. apply IH in H. destruct (f_oneof fd) as [j|]; [|exact H].
  destruct ((j =? oi) && negb (f_num fd =? num)); [exact (msg_in_fdel _ _ _ H)|exact H].
Qed.
Lemma msg_fget_clear_oneof md oi num h : forall fs,
  (forall fd, In fd md -> f_num fd = h -> f_oneof fd = Some oi -> h = num) ->
  msg_fget (msg_clear_oneof md oi num fs) h = msg_fget fs h.
Proof.
  induction md as [|fd r IH]; intros fs Hh; cbn [msg_clear_oneof]; [reflexivity|].
  rewrite IH by (intros fd' Hin; apply Hh; right; exact Hin).
  destruct (f_oneof fd) as [j|] eqn:Ho; [|reflexivity].
  destruct (N.eqb_spec j oi) as [->|Hj]; cbn [andb]; [|reflexivity].
  destruct (N.eqb_spec (f_num fd) num) as [Hn|Hn]; cbn [negb]; [reflexivity|].
  apply msg_fget_fdel_other. intros E. apply Hn. rewrite <- E. symmetry.
  rewrite E. apply (Hh fd (or_introl eq_refl)); [symmetry; exact E|exact Ho].
Qed.
Lemma msg_in_map_put : forall es key v x, In x (msg_map_put es key v) -> x = VEntry key v \/ In x es.
Proof.
  induction es as [|e r IH]; intros key v x; cbn [msg_map_put].
  - intros [H|[]]. left. symmetry. exact H.
  - destruct e as [s|fs u|k0 v0].
    + intros [H|H]; [right; left; exact H|]. destruct (IH _ _ _ H) as [E|E]; [left; exact E|right; right; exact E].
    + intros [H|H]; [right; left; exact H|]. destruct (IH _ _ _ H) as [E|E]; [left; exact E|right; right; exact E].
    + destruct (msg_scmp key k0).
      * intros [H|H]; [left; symmetry; exact H|right; right; exact H].
      * intros [H|H]; [left; symmetry; exact H|right; exact H].
      * intros [H|H]; [right; left; exact H|]. destruct (IH _ _ _ H) as [E|E]; [left; exact E|right; right; exact E].
Qed.
Lemma msg_map_put_nonempty es key v : msg_map_put es key v <> [].
Proof. destruct es as [|[s|fs u|k0 v0] r]; cbn [msg_map_put]; try discriminate. destruct (msg_scmp key k0); discriminate. Qed.

(* ---------- well-formedness of the schema for the flag theorem ---------- *)
Record msg_md_wf (ni : nat -> bool) (md : mdesc) : Prop := {
  wf_uniq : msg_nums_unique md;
  wf_req : forall fd, In fd md -> msg_is_req fd = true -> f_ext fd = false /\ f_oneof fd = None;
  (* exclusion of finding FA2: message-typed oneof members are the first member of their oneof *)
  wf_oneof : forall fd t, In fd md -> (f_kind fd = KMsg t \/ f_kind fd = KGrp t) -> msg_tracks_init md fd = true;
  (* restriction [maps]: map values do not need an init check *)
  wf_map : forall fd kk ku vd t, In fd md -> f_card fd = CMap kk ku vd ->
                                 (f_kind fd = KMsg t \/ f_kind fd = KGrp t) -> ni t = false
}.
Definition msg_ni_sound (S : schema) (ni : nat -> bool) : Prop :=
  forall tid v, ni tid = false -> msg_check_init S tid v = true.
Definition msg_init_wf (S : schema) (ni : nat -> bool) : Prop :=
  (forall tid md, nth_error S tid = Some md -> msg_md_wf ni md) /\ msg_ni_sound S ni.

(* ---------- invariants ---------- *)
Definition msg_elems_ok (S : schema) (md : mdesc) (p : N * list value) : Prop :=
  forall fd t, msg_find_field md (fst p) = Some fd -> (f_kind fd = KMsg t \/ f_kind fd = KGrp t) ->
               forall x, In x (snd p) -> msg_check_elem (msg_check_init S) t x = true.
Definition msg_subs_ok (S : schema) (md : mdesc) (fs : fields) : Prop :=
  forall p, In p fs -> msg_elems_ok S md p.

Lemma msg_elems_ok_chunk S md p : msg_elems_ok S md p -> msg_check_chunk (msg_check_init S) md p = true.
Proof.
  intros H. unfold msg_check_chunk. destruct (msg_find_field md (fst p)) as [fd|] eqn:Hf; [|reflexivity].
  destruct (f_kind fd) as [sk|t|t] eqn:Hk; [reflexivity| |];
    apply forallb_forall; intros x Hx; eapply H; try eassumption; [left|right]; reflexivity.
Qed.
Lemma msg_chunk_elems_ok S md p : msg_check_chunk (msg_check_init S) md p = true -> msg_elems_ok S md p.
Proof.
  intros H fd t Hf Hk x Hx. unfold msg_check_chunk in H. rewrite Hf in H.
  destruct Hk as [Hk|Hk]; rewrite Hk in H; rewrite forallb_forall in H; exact (H x Hx).
Qed.

Definition msg_mask_ok (md : mdesc) (fs : fields) (mask : N) : Prop :=
  forall i, N.testbit mask i = true ->
            exists h, msg_present fs h = true /\ N.testbit (msg_bit_of md h) i = true.
Definition msg_inv (S : schema) (md : mdesc) (fs : fields) (st : msg_ist) : Prop :=
  msg_mask_ok md fs (fst st) /\ (snd st = true -> msg_subs_ok S md fs).

(* presence of required fields is kept *)
Definition msg_keeps (md : mdesc) (fs fs' : fields) : Prop :=
  forall h fdh, msg_find_field md h = Some fdh -> msg_is_req fdh = true ->
                msg_present fs h = true -> msg_present fs' h = true.

Lemma msg_req_index_nonzero : forall md h n, msg_req_index md h n <> 0 ->
  exists fd, msg_find_field md h = Some fd /\ msg_is_req fd = true /\ f_ext fd = false.
Proof.
  induction md as [|fd r IH]; intros h n H; cbn [msg_req_index msg_find_field] in *; [congruence|].
  destruct (f_ext fd) eqn:Hx.
  - destruct (N.eqb_spec (f_num fd) h) as [Hn|Hn].
    + (* an extension with this number shadows: the index of r is for the same number; the first
         field with number h is fd, an extension -- then index must come from r, contradiction is
         not available; we need the found field: use IH only when numbers differ *)
      exfalso. revert H. clear IH.
      (* msg_req_index skips extensions without looking at the number, so this case can have a
         nonzero index; it is excluded by uniqueness of numbers in callers.  We avoid it by
         strengthening: see msg_req_index_nonzero_u below *)
      admit_placeholder.
Abort.
