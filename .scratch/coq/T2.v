From Coq Require Import List NArith ZArith Bool Lia.
From Coq Require Import ZifyBool ZifyNat ZifyN.
From PB Require Import Base.PBytes Wire.WireModel Msg.MsgSchema Msg.MsgValue Msg.MsgEnc Msg.MsgDec Msg.MsgSizeP.
From X Require Import InitModel2.
Import ListNotations.
Open Scope N_scope.

(* ---------- popcount ---------- *)
Lemma msg_popcount_div2 a : msg_popcount a = N.b2n (N.odd a) + msg_popcount (N.div2 a).
Proof. destruct a as [|[p|p|]]; reflexivity. Qed.

Lemma msg_testbit_div2 a i : N.testbit (N.div2 a) i = N.testbit a (N.succ i).
Proof. rewrite N.div2_spec. rewrite N.shiftr_spec by lia. f_equal. lia. Qed.

Lemma msg_popcount_le : forall (n : nat) a,
  (forall i, N.testbit a i = true -> i < N.of_nat n) -> msg_popcount a <= N.of_nat n.
Proof.
  induction n as [|n IH]; intros a H.
  - assert (a = 0) as ->.
    { apply N.bits_inj_0. intros i. destruct (N.testbit a i) eqn:E; [|reflexivity]. specialize (H i E). lia. }
    reflexivity.
  - rewrite msg_popcount_div2.
    assert (msg_popcount (N.div2 a) <= N.of_nat n).
    { apply IH. intros i Hi. rewrite msg_testbit_div2 in Hi. specialize (H _ Hi). lia. }
    destruct (N.odd a); cbn [N.b2n]; lia.
Qed.

Lemma msg_popcount_full : forall (n : nat) a,
  (forall i, N.testbit a i = true -> i < N.of_nat n) -> msg_popcount a = N.of_nat n ->
  forall i, i < N.of_nat n -> N.testbit a i = true.
Proof.
  induction n as [|n IH]; intros a H Hpc i Hi; [lia|].
  rewrite msg_popcount_div2 in Hpc.
  assert (Hd : forall j, N.testbit (N.div2 a) j = true -> j < N.of_nat n).
  { intros j Hj. rewrite msg_testbit_div2 in Hj. specialize (H _ Hj). lia. }
  pose proof (msg_popcount_le n (N.div2 a) Hd) as Hle.
  destruct (N.odd a) eqn:Hodd; cbn [N.b2n] in Hpc; [|lia].
  destruct (N.eq_dec i 0) as [->|Hne].
  - rewrite N.bit0_odd. exact Hodd.
  - replace i with (N.succ (N.pred i)) by lia. rewrite <- msg_testbit_div2.
    apply (IH (N.div2 a) Hd); lia.
Qed.

(* ---------- the bit of a field ---------- *)
Lemma msg_req_bit_testbit idx i :
  N.testbit (msg_req_bit idx) i = true <-> (idx <> 0 /\ idx <= 64 /\ i = idx - 1).
Proof.
  unfold msg_req_bit. destruct (N.eqb_spec idx 0) as [->|Hne].
  - rewrite N.bits_0. split; [discriminate|intros (H & _); congruence].
  - destruct (N.leb_spec idx 64) as [Hle|Hgt].
    + rewrite N.pow2_bits_eqb. split.
      * intros H. apply N.eqb_eq in H. repeat split; try assumption. lia.
      * intros (_ & _ & ->). apply N.eqb_refl.
    + rewrite N.bits_0. split; [discriminate|intros (_ & H & _); lia].
Qed.

(* index range and injectivity *)
Lemma msg_req_index_range : forall md num n,
  msg_req_index md num n = 0 \/ (n < msg_req_index md num n /\ msg_req_index md num n <= n + msg_count_required md).
Proof.
  induction md as [|fd r IH]; intros num n; [left; reflexivity|].
  cbn [msg_req_index msg_count_required].
  destruct (msg_req_counted fd); cbn [andb].
  - destruct (N.ltb_spec n 255) as [Hlt|Hge].
    + destruct (N.eqb_spec (f_num fd) num); [right; lia|].
      destruct (IH num (n + 1)) as [H|H]; [left; exact H|right; lia].
    + destruct (N.eqb_spec (f_num fd) num); [left; reflexivity|].
      destruct (IH num n) as [H|H]; [left; exact H|right; lia].
  - destruct (N.eqb_spec (f_num fd) num); [left; reflexivity|].
    destruct (IH num n) as [H|H]; [left; exact H|right; lia].
Qed.

Lemma msg_req_index_inj : forall md a b n,
  msg_req_index md a n = msg_req_index md b n -> msg_req_index md a n <> 0 -> a = b.
Proof.
  induction md as [|fd r IH]; intros a b n E Hne; [cbn in Hne; congruence|].
  cbn [msg_req_index] in *.
  destruct (N.eqb_spec (f_num fd) a) as [Ha|Ha]; destruct (N.eqb_spec (f_num fd) b) as [Hb|Hb].
  - congruence.
  - destruct (msg_req_counted fd && (n <? 255)) eqn:Hh; [|congruence].
    destruct (msg_req_index_range r b (n + 1)) as [H0|H0]; lia.
  - destruct (msg_req_counted fd && (n <? 255)) eqn:Hh; [|congruence].
    destruct (msg_req_index_range r a (n + 1)) as [H0|H0]; lia.
  - eapply IH; eassumption.
Qed.

(* a required field that is found by its number has an index, as long as the counter does not saturate *)
Lemma msg_req_index_found : forall md num fd n,
  msg_find_field md num = Some fd -> f_ext fd = false -> msg_is_req fd = true ->
  n + msg_count_required md <= 255 -> n < msg_req_index md num n.
Proof.
  induction md as [|fd0 r IH]; intros num fd n Hf Hext Hreq Hcnt; [discriminate|].
  cbn [msg_find_field msg_req_index msg_count_required] in *.
  destruct (N.eqb_spec (f_num fd0) num) as [Hnum|Hnum].
  - inversion Hf; subst fd0. unfold msg_req_counted in *. rewrite Hext, Hreq in *. cbn [negb andb] in *.
    destruct (N.ltb_spec n 255); lia.
  - destruct (msg_req_counted fd0); cbn [andb].
    + destruct (N.ltb_spec n 255); [|lia].
      assert (n + 1 < msg_req_index r num (n + 1)) by (eapply IH; try eassumption; try lia). lia.
    + eapply IH; try eassumption; try lia.
Qed.

(* a nonzero index belongs to a required field *)
Lemma msg_req_index_nonzero : forall md h n, msg_req_index md h n <> 0 ->
  exists fd, msg_find_field md h = Some fd /\ msg_is_req fd = true /\ f_ext fd = false.
Proof.
  induction md as [|fd r IH]; intros h n H; cbn [msg_req_index msg_find_field] in *; [congruence|].
  destruct (N.eqb_spec (f_num fd) h) as [Hn|Hn].
  - exists fd. split; [reflexivity|]. unfold msg_req_counted in H.
    destruct (f_ext fd); destruct (msg_is_req fd); cbn [negb andb] in H; try congruence. split; reflexivity.
  - eapply IH. exact H.
Qed.

(* ---------- the mask of a sequence of decoded field numbers ---------- *)
Definition msg_bit_of (md : mdesc) (num : N) : N := msg_req_bit (msg_req_index md num 0).
Definition msg_mask_of (md : mdesc) (hits : list N) (m0 : N) : N :=
  fold_left (fun m num => N.lor m (msg_bit_of md num)) hits m0.

Lemma msg_mask_of_testbit md : forall hits m0 i,
  N.testbit (msg_mask_of md hits m0) i = true <->
  (N.testbit m0 i = true \/ exists h, In h hits /\ N.testbit (msg_bit_of md h) i = true).
Proof.
  induction hits as [|h hits IH]; intros m0 i; cbn [msg_mask_of fold_left].
  - split; [intros H; left; exact H|intros [H|(h & [] & _)]; exact H].
  - fold (msg_mask_of md hits (N.lor m0 (msg_bit_of md h))). rewrite IH, N.lor_spec, orb_true_iff. split.
    + intros [[H|H]|(h' & Hin & H)]; [left; exact H|right; exists h; split; [left; reflexivity|exact H]|
                                       right; exists h'; split; [right; exact Hin|exact H]].
    + intros [H|(h' & [->|Hin] & H)]; [left; left; exact H|left; right; exact H|right; exists h'; split; assumption].
Qed.

Definition msg_nums_unique (md : mdesc) : Prop :=
  forall fd, In fd md -> msg_find_field md (f_num fd) = Some fd.

Lemma msg_count_required_pos md fd :
  In fd md -> f_ext fd = false -> msg_is_req fd = true -> 1 <= msg_count_required md.
Proof.
  induction md as [|fd0 r IH]; [contradiction|]. intros Hin Hext Hreq.
  cbn [msg_count_required]. destruct Hin as [->|Hin].
  - unfold msg_req_counted. rewrite Hext, Hreq. cbn [negb andb]. lia.
  - specialize (IH Hin Hext Hreq). lia.
Qed.

(* requiredMask accounting is sound for every number of required fields: if every bit of the mask
   is the bit of a field with property P, and the popcount of the mask equals numRequiredFields,
   then every required field has property P *)
Theorem msg_mask_sound_gen md (P : N -> Prop) mask :
  msg_nums_unique md ->
  (forall i, N.testbit mask i = true -> exists h, P h /\ N.testbit (msg_bit_of md h) i = true) ->
  msg_popcount mask = msg_num_required md ->
  forall fd, In fd md -> f_ext fd = false -> msg_is_req fd = true -> P (f_num fd).
Proof.
  intros Huniq Hcover Hpc fd Hin Hext Hreq.
  set (cnt := msg_count_required md) in *.
  assert (Hbits : forall i, N.testbit mask i = true -> i < N.min cnt 64).
  { intros i Hi. destruct (Hcover i Hi) as (h & _ & Hb).
    unfold msg_bit_of in Hb. apply msg_req_bit_testbit in Hb. destruct Hb as (Hne & Hle & ->).
    destruct (msg_req_index_range md h 0) as [H0|[_ H1]]; [congruence|]. fold cnt in H1. lia. }
  pose proof (msg_count_required_pos md fd Hin Hext Hreq) as Hcntpos. fold cnt in Hcntpos.
  unfold msg_num_required in Hpc. fold cnt in Hpc.
  destruct (N.leb_spec cnt 64) as [Hsmall|Hbig].
  - assert (Hall : forall i, i < cnt -> N.testbit mask i = true).
    { replace cnt with (N.of_nat (N.to_nat cnt)) by lia.
      apply msg_popcount_full.
      - intros i Hi. specialize (Hbits i Hi). lia.
      - lia. }
    pose proof (msg_req_index_found md (f_num fd) fd 0 (Huniq fd Hin) Hext Hreq) as Hidx.
    fold cnt in Hidx. specialize (Hidx ltac:(lia)).
    destruct (msg_req_index_range md (f_num fd) 0) as [H0|[_ Hhi]]; [lia|]. fold cnt in Hhi.
    specialize (Hall (msg_req_index md (f_num fd) 0 - 1) ltac:(lia)).
    destruct (Hcover _ Hall) as (h & Hh & Hb).
    unfold msg_bit_of in Hb. apply msg_req_bit_testbit in Hb. destruct Hb as (Hne & _ & Heq).
    assert (msg_req_index md h 0 = msg_req_index md (f_num fd) 0) as E by lia.
    rewrite <- (msg_req_index_inj md h (f_num fd) 0 E Hne). exact Hh.
  - exfalso.
    assert (msg_popcount mask <= N.of_nat 64).
    { apply msg_popcount_le. intros i Hi. specialize (Hbits i Hi). lia. }
    lia.
Qed.

(* the list form: the mask of a sequence of decoded field numbers *)
Corollary msg_mask_sound md hits :
  msg_nums_unique md ->
  msg_popcount (msg_mask_of md hits 0) = msg_num_required md ->
  forall fd, In fd md -> f_ext fd = false -> msg_is_req fd = true -> In (f_num fd) hits.
Proof.
  intros Huniq Hpc. apply (msg_mask_sound_gen md (fun h => In h hits) (msg_mask_of md hits 0) Huniq); [|exact Hpc].
  intros i Hi. apply msg_mask_of_testbit in Hi.
  destruct Hi as [Hi|(h & Hh & Hb)]; [rewrite N.bits_0 in Hi; discriminate|]. exists h. split; assumption.
Qed.
