#!/usr/bin/env python3
"""Shared build/run helpers for /verif (stdlib only)."""
import os, sys, json, subprocess, glob, hashlib, time, re, shutil

VERIF = os.path.dirname(os.path.dirname(os.path.abspath(__file__)))
REPO = os.environ.get("VERIF_REPO", "/repo")
COQ = os.path.join(VERIF, "coq")
OCAML = os.path.join(VERIF, "ocaml")
CACHE = os.path.join(VERIF, ".cache")
# All harness families are linked into one binary; a few test packages of the repository declare the same
# extension numbers (e.g. cmd/protoc-gen-go/testdata/extensions/proto3 and internal/testprotos/test3 both
# extend MessageOptions with 1001).  The documented escape hatch keeps the *global* registries from panicking
# at init; local registries (the subject of C33) never consult it.
GOENV = dict(os.environ, GOLANG_PROTOBUF_REGISTRATION_CONFLICT="ignore", GOFLAGS="-mod=mod", GOPROXY="off", GOSUMDB="off", GOTOOLCHAIN="local",
             GOCACHE=os.environ.get("VERIF_GOCACHE", os.path.join(CACHE, "go-build")), CGO_ENABLED=os.environ.get("CGO_ENABLED", "0"))

def sh(cmd, cwd=None, env=None, timeout=None, check=False, capture=True):
    """Run a command (list or str); returns (rc, output)."""
    p = subprocess.run(cmd, cwd=cwd, env=env, shell=isinstance(cmd, str), timeout=timeout,
                       stdout=subprocess.PIPE if capture else None,
                       stderr=subprocess.STDOUT if capture else None, text=True, errors="replace")
    if check and p.returncode != 0:
        sys.stderr.write((p.stdout or "")[-4000:] + "\n")
        raise SystemExit("command failed: %s" % (cmd,))
    return p.returncode, p.stdout or ""

def write_if_changed(path, content):
    try:
        if open(path).read() == content:
            return False
    except FileNotFoundError:
        pass
    os.makedirs(os.path.dirname(path), exist_ok=True)
    with open(path, "w") as f:
        f.write(content)
    return True

# ---------------------------------------------------------------- Coq
def coq_project():
    vs = sorted(glob.glob(os.path.join(COQ, "theories", "**", "*.v"), recursive=True))
    rel = [os.path.relpath(v, COQ) for v in vs]
    content = "-Q theories PB\n" + "\n".join(rel) + "\n"
    changed = write_if_changed(os.path.join(COQ, "_CoqProject"), content)
    if changed or not os.path.exists(os.path.join(COQ, "Makefile")):
        sh(["coq_makefile", "-f", "_CoqProject", "-o", "Makefile"], cwd=COQ, check=True)

def coq_make(targets=None, timeout=3000, jobs=16):
    """Full .vo build (never -vos/-vok).  Returns (ok, log)."""
    coq_project()
    cmd = ["timeout", str(timeout), "make", "-j%d" % jobs] + (targets or [])
    rc, out = sh(cmd, cwd=COQ)
    return rc == 0, out

def coq_cone(vfile):
    """Transitive PB.* dependencies of a theories/...v file (including itself), via coqdep."""
    rc, out = sh(["coqdep", "-Q", "theories", "PB"] + [os.path.relpath(p, COQ) for p in
                 sorted(glob.glob(os.path.join(COQ, "theories", "**", "*.v"), recursive=True))], cwd=COQ)
    deps = {}
    for line in out.splitlines():
        if ":" not in line: continue
        lhs, rhs = line.split(":", 1)
        tgt = [t for t in lhs.split() if t.endswith(".vo")]
        if not tgt: continue
        v = tgt[0][:-1]
        deps[v] = [d[:-1] for d in rhs.split() if d.endswith(".vo") and d.startswith("theories/")]
    seen, todo = set(), [vfile]
    while todo:
        x = todo.pop()
        if x in seen: continue
        seen.add(x)
        todo.extend(deps.get(x, []))
    return sorted(seen)

STMT_RE = re.compile(r"^\s*(?:Local\s+|Global\s+|#\[[^\]]*\]\s*)*(Theorem|Lemma|Corollary|Fact|Proposition|Remark|Example)\s+([A-Za-z0-9_']+)", re.M)
FORBIDDEN_RE = re.compile(r"\b(Admitted|admit|Axiom|Axioms|Parameter|Parameters|Conjecture|Hypothesis|Variable)\b|Unset\s+Guard|bypass_check|type-in-type|Admit\s+Obligations")

def strip_comments(src):
    out, depth, i = [], 0, 0
    while i < len(src):
        if src.startswith("(*", i): depth += 1; i += 2; continue
        if src.startswith("*)", i) and depth > 0: depth -= 1; i += 2; continue
        if depth == 0: out.append(src[i])
        i += 1
    return "".join(out)

def count_statements(vfiles):
    names = []
    for v in vfiles:
        src = strip_comments(open(os.path.join(COQ, v)).read())
        for m in STMT_RE.finditer(src):
            names.append((v, m.group(1), m.group(2)))
    return names

def forbidden_scan():
    """Forbidden vernacular anywhere in the development.  Section-local
    Variable/Hypothesis are allowed only inside a Section (checked textually)."""
    bad = []
    for v in sorted(glob.glob(os.path.join(COQ, "theories", "**", "*.v"), recursive=True)):
        src = strip_comments(open(v).read())
        depth = 0
        for ln, line in enumerate(src.splitlines(), 1):
            s = line.strip()
            if re.match(r"^(Section|Module\s+Type)\b", s): depth += 1
            if re.match(r"^End\b", s) and depth > 0: depth -= 1
            for m in FORBIDDEN_RE.finditer(line):
                w = m.group(0)
                if w in ("Hypothesis", "Variable") and depth > 0: continue
                if w in ("Hypothesis", "Variable") and re.search(r"\b(Variables|Hypotheses)\b", line) and depth > 0: continue
                bad.append("%s:%d: %s" % (os.path.relpath(v, VERIF), ln, s))
    return bad

# ---------------------------------------------------------------- extraction + OCaml
def gen_extract():
    items = sorted(glob.glob(os.path.join(COQ, "extract", "*.items")))
    reqs, names = [], []
    for it in items:
        for line in open(it):
            line = line.strip()
            if not line or line.startswith("#"): continue
            if line.startswith("Require"): reqs.append(line)
            else: names.extend(line.split())
    seen = set(); names = [n for n in names if not (n in seen or seen.add(n))]
    allv = ("(* GENERATED by bin/lib.py from coq/extract/*.items -- do not edit *)\n"
            "Require Extraction.\nRequire Import ExtrOcamlBasic.\n"
            "Extraction Blacklist String.  (* file naming only: an extracted Coq String module must not shadow OCaml's *)\n" + "\n".join(reqs) +
            "\nSeparate Extraction\n  " + "\n  ".join(names) + ".\n")
    gen = os.path.join(OCAML, "gen")
    os.makedirs(gen, exist_ok=True)
    for f in glob.glob(os.path.join(gen, "*")):
        os.remove(f)
    path = os.path.join(gen, "All.v")
    open(path, "w").write(allv)
    rc, out = sh(["timeout", "600", "coqc", "-Q", os.path.join(COQ, "theories"), "PB", "All.v"], cwd=gen)
    return rc == 0, out

def build_ocaml():
    gen = os.path.join(OCAML, "gen")
    build = os.path.join(CACHE, "ocaml")
    if os.path.isdir(build): shutil.rmtree(build)
    os.makedirs(build)
    srcs = glob.glob(os.path.join(gen, "*.ml")) + glob.glob(os.path.join(gen, "*.mli")) + \
           glob.glob(os.path.join(OCAML, "*.ml"))
    for s in srcs:
        shutil.copy(s, build)
    names = sorted(os.path.basename(s) for s in srcs)
    rc, out = sh(["ocamlfind", "ocamldep", "-sort"] + names, cwd=build)
    if rc != 0: return False, out
    order = out.split()
    # main.ml must be last
    order = [o for o in order if o != "main.ml"] + ["main.ml"]
    rc, out = sh(["ocamlfind", "ocamlopt", "-O2" if False else "-inline", "100", "-w", "-a", "-package", "str,unix", "-linkpkg",
                  "-o", os.path.join(CACHE, "model")] + order, cwd=build)
    return rc == 0, out

# ---------------------------------------------------------------- Go harness
def harness_overlay():
    files = sorted(glob.glob(os.path.join(VERIF, "harness", "**", "*.go"), recursive=True))
    rep = {}
    for f in files:
        rel = os.path.relpath(f, os.path.join(VERIF, "harness"))
        rep[os.path.join(REPO, "internal", "verifh", rel)] = f
    path = os.path.join(CACHE, "overlay.json")
    os.makedirs(CACHE, exist_ok=True)
    json.dump({"Replace": rep}, open(path, "w"))
    return path

def build_harness(tags="verif", race=False, name=None):
    """Builds /verif/harness (injected as /repo/internal/verifh via -overlay, nothing is
    written to /repo) against /repo's current working tree."""
    ov = harness_overlay()
    name = name or ("h_" + re.sub(r"[^a-z0-9]+", "_", tags) + ("_race" if race else ""))
    if REPO != "/repo":   # checks against another checkout (seeded regressions) get their own binaries
        name += "_" + hashlib.sha1(REPO.encode()).hexdigest()[:8]
    out = os.path.join(CACHE, name)
    env = dict(GOENV)
    cmd = ["go", "build", "-overlay", ov, "-tags", tags, "-o", out]
    if race:
        cmd.insert(2, "-race"); env["CGO_ENABLED"] = "1"
    cmd.append("./internal/verifh/cmd/h")
    rc, log = sh(["timeout", "900"] + cmd, cwd=REPO, env=env)
    return (out if rc == 0 else None), log

def build_srcmodel(name=None):
    """Tier T extractors.  Extractor X lives either in its own Go module /verif/srcmodel_X
    (binary run as `srcmodel_X X <repo>`) or in the shared module /verif/srcmodel
    (`srcmodel X <repo>`).  Extractors that need the repository's own packages are built
    with a `replace` to <repo> by their own go.mod handling (they receive <repo> as argument)."""
    d = os.path.join(VERIF, "srcmodel_" + name) if name and os.path.isdir(os.path.join(VERIF, "srcmodel_" + name)) \
        else os.path.join(VERIF, "srcmodel")
    out = os.path.join(CACHE, os.path.basename(d))
    rc, log = sh(["timeout", "300", "go", "build", "-o", out, "."], cwd=d, env=GOENV)
    return (out if rc == 0 else None), log

def model_stamp():
    h = hashlib.sha1()
    files = sorted(glob.glob(os.path.join(COQ, "theories", "**", "*.v"), recursive=True)) + \
            sorted(glob.glob(os.path.join(COQ, "extract", "*.items"))) + sorted(glob.glob(os.path.join(OCAML, "*.ml")))
    for f in files:
        # proofs-only files do not influence extraction, but hashing everything is simple and safe
        h.update(f.encode()); h.update(open(f, "rb").read())
    return h.hexdigest()

def ensure_model(force=False):
    """Re-extract the Coq models and rebuild the OCaml driver when any source changed."""
    stamp_path = os.path.join(CACHE, "model.stamp")
    st = model_stamp()
    if not force and os.path.exists(os.path.join(CACHE, "model")):
        try:
            if open(stamp_path).read() == st: return True, "up to date"
        except FileNotFoundError:
            pass
    # everything the extraction Requires must be compiled
    reqs = set()
    for it in glob.glob(os.path.join(COQ, "extract", "*.items")):
        for line in open(it):
            if line.startswith("Require"):
                for m in re.findall(r"PB\.([A-Za-z0-9_.]+)", line):
                    m = m.rstrip(".")
                    reqs.add("theories/" + m.replace(".", "/") + ".vo")
    ok, log = coq_make(sorted(reqs))
    if not ok: return False, log
    ok, log = gen_extract()
    if not ok: return False, log
    ok, log = build_ocaml()
    if not ok: return False, log
    open(stamp_path, "w").write(st)
    return True, "rebuilt"
