module srcmodel_presence

go 1.23
