// Command srcmodel_presence derives coq/theories/Gen/PresenceGo.v from the presence-bitmap
// code of the repository under verification (Tier T for C11):
//
//	internal/impl/presence.go          presence.toElem, Present, SetPresent, SetPresentUnatomic,
//	                                   ClearPresent, LoadPresenceCache, AnyPresent
//	internal/impl/api_export_opaque.go Export.Present, SetPresent, SetPresentNonAtomic, ClearPresent
//	internal/impl/bitmap.go            the race-detector hooks of the !race build (must be empty)
//
// Usage: srcmodel_presence presence <repo>
//
// The translator (translate.go) follows the conventions of /verif/srcmodel (names v_<x>, every
// Go integer a Z in the range of its type, wrap_* after every operation that can leave the range,
// outcome/bind/Panic/Fuel of Base/GoInt.v, loops as fuel-indexed local fix) and adds what this
// code needs: unsafe.Pointer / uintptr / *uint32 values are absolute addresses (Z, 64 bit), the
// memory they point into is a parameter h : heap (Msg/PresenceHeap.v: a base address and the
// uint32 words stored from there on), *p / atomic.LoadUint32(p) is load32 h p (Panic when p does not
// address a word of h), *p = v is store32, atomic.CompareAndSwapUint32 is cas32 (one sequentially
// consistent step), the receiver presence{P} is flattened to the parameter v_p_P, Export{} to
// nothing, three-clause for loops get the fuel S (bound - start).  Anything else comes out as
// Unsupported "<reason>".
//
// Exit status: 0 ok; 3 file written but an expected function is unsupported; 2 usage; 1 error.
package main

import (
	"fmt"
	"os"
	"path/filepath"
)

func main() {
	if len(os.Args) != 3 || os.Args[1] != "presence" {
		fmt.Fprintln(os.Stderr, "usage: srcmodel_presence presence <repo>")
		os.Exit(2)
	}
	repo, err := filepath.Abs(os.Args[2])
	if err != nil {
		fmt.Fprintf(os.Stderr, "srcmodel_presence: %v\n", err)
		os.Exit(1)
	}
	content, incomplete, err := extractPresence(repo)
	if err != nil {
		fmt.Fprintf(os.Stderr, "srcmodel_presence: %v\n", err)
		os.Exit(1)
	}
	dir, err := os.MkdirTemp("", "srcmodel-presence-")
	if err != nil {
		fmt.Fprintf(os.Stderr, "srcmodel_presence: %v\n", err)
		os.Exit(1)
	}
	path := filepath.Join(dir, "PresenceGo.v")
	if err := os.WriteFile(path, []byte(content), 0o644); err != nil {
		fmt.Fprintf(os.Stderr, "srcmodel_presence: %v\n", err)
		os.Exit(1)
	}
	fmt.Printf("WRITE %s\n", path)
	if len(incomplete) > 0 {
		fmt.Fprintf(os.Stderr, "srcmodel_presence: unsupported: %v\n", incomplete)
		os.Exit(3)
	}
}
