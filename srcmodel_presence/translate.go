package main

import (
	"fmt"
	"go/ast"
	"go/constant"
	"go/parser"
	"go/token"
	"go/types"
	"math/big"
	"path"
	"path/filepath"
	"sort"
	"strings"
)

// ---------------------------------------------------------------- what is translated

type target struct{ recv, name string }

// the functions the proofs are about; a missing or untranslatable one is Unsupported
var targets = []target{
	{"presence", "toElem"},
	{"Export", "Present"}, {"Export", "SetPresent"}, {"Export", "SetPresentNonAtomic"}, {"Export", "ClearPresent"},
	{"presence", "Present"}, {"presence", "SetPresent"}, {"presence", "SetPresentUnatomic"}, {"presence", "ClearPresent"},
	{"presence", "LoadPresenceCache"}, {"presence", "AnyPresent"},
}

var sourceFiles = []string{"presence.go", "api_export_opaque.go", "api_export.go", "bitmap.go"}

type fkind int

const (
	kPure   fkind = iota // no access to the memory behind the pointers
	kReader              // loads only
	kWriter              // stores
)

type fnInfo struct {
	decl    *ast.FuncDecl
	obj     *types.Func
	recv    string // name of the receiver type ("" for a plain function)
	name    string
	coqName string
	kind    fkind
	hasLoop bool
	empty   bool // body without statements
	calls   []*fnInfo
	text    string // generated definition
	failed  string
}

type unit struct {
	fset  *token.FileSet
	info  *types.Info
	funcs map[*types.Func]*fnInfo
}

func (u *unit) pos(p token.Pos) string {
	q := u.fset.Position(p)
	return fmt.Sprintf("%s:%d", filepath.Base(q.Filename), q.Line)
}

// ---------------------------------------------------------------- loading

type fakeImporter struct{ pkgs map[string]*types.Package }

func (f *fakeImporter) Import(p string) (*types.Package, error) {
	if p == "unsafe" {
		return types.Unsafe, nil
	}
	if pk, ok := f.pkgs[p]; ok {
		return pk, nil
	}
	pk := types.NewPackage(p, path.Base(p))
	if p == "sync/atomic" {
		u32 := types.Typ[types.Uint32]
		pu32 := types.NewPointer(u32)
		v := func(t types.Type) *types.Var { return types.NewVar(token.NoPos, pk, "", t) }
		fn := func(name string, res types.Type, params ...types.Type) {
			var ps []*types.Var
			for _, p := range params {
				ps = append(ps, v(p))
			}
			sig := types.NewSignatureType(nil, nil, nil, types.NewTuple(ps...), types.NewTuple(v(res)), false)
			pk.Scope().Insert(types.NewFunc(token.NoPos, pk, name, sig))
		}
		fn("LoadUint32", u32, pu32)
		fn("CompareAndSwapUint32", types.Typ[types.Bool], pu32, u32, u32)
	}
	pk.MarkComplete()
	f.pkgs[p] = pk
	return pk, nil
}

func recvTypeName(fd *ast.FuncDecl) string {
	if fd.Recv == nil || len(fd.Recv.List) == 0 {
		return ""
	}
	e := fd.Recv.List[0].Type
	if s, ok := e.(*ast.StarExpr); ok {
		e = s.X
	}
	if id, ok := e.(*ast.Ident); ok {
		return id.Name
	}
	return "?"
}

func extractPresence(repo string) (content string, incomplete []string, err error) {
	dir := filepath.Join(repo, "internal", "impl")
	fset := token.NewFileSet()
	var files []*ast.File
	for _, b := range sourceFiles {
		f, err := parser.ParseFile(fset, filepath.Join(dir, b), nil, parser.SkipObjectResolution)
		if err != nil {
			return "", nil, err
		}
		files = append(files, f)
	}
	info := &types.Info{
		Types:      map[ast.Expr]types.TypeAndValue{},
		Defs:       map[*ast.Ident]types.Object{},
		Uses:       map[*ast.Ident]types.Object{},
		Selections: map[*ast.SelectorExpr]*types.Selection{},
	}
	nerr := 0
	conf := types.Config{
		Importer: &fakeImporter{pkgs: map[string]*types.Package{}},
		Error:    func(error) { nerr++ }, // the rest of package impl is not loaded: what does not resolve is rejected later
		Sizes:    types.SizesFor("gc", "amd64"),
	}
	pkg, _ := conf.Check("impl", fset, files, info)
	if pkg == nil {
		return "", nil, fmt.Errorf("type checking produced no package")
	}
	u := &unit{fset: fset, info: info, funcs: map[*types.Func]*fnInfo{}}
	byName := map[target]*fnInfo{}
	for _, f := range files {
		for _, d := range f.Decls {
			fd, ok := d.(*ast.FuncDecl)
			if !ok {
				continue
			}
			obj, ok := info.Defs[fd.Name].(*types.Func)
			if !ok {
				continue
			}
			fi := &fnInfo{decl: fd, obj: obj, recv: recvTypeName(fd), name: fd.Name.Name}
			fi.coqName = "go_" + fi.name
			if fi.recv != "" {
				fi.coqName = "go_" + fi.recv + "_" + fi.name
			}
			fi.empty = fd.Body != nil && len(fd.Body.List) == 0
			u.funcs[obj] = fi
			byName[target{fi.recv, fi.name}] = fi
		}
	}

	// the functions reachable from the targets, callees first
	var order []*fnInfo
	state := map[*fnInfo]int{}
	var visit func(fi *fnInfo)
	visit = func(fi *fnInfo) {
		if state[fi] != 0 {
			if state[fi] == 1 {
				fi.failed = "recursive function"
			}
			return
		}
		state[fi] = 1
		u.scan(fi)
		for _, c := range fi.calls {
			visit(c)
		}
		state[fi] = 2
		if !fi.empty {
			order = append(order, fi)
		}
	}
	var missing []target
	for _, tg := range targets {
		if fi := byName[tg]; fi != nil && fi.decl.Body != nil {
			visit(fi)
		} else {
			missing = append(missing, tg)
		}
	}
	// kinds: least fixed point over the call graph
	for changed := true; changed; {
		changed = false
		for _, fi := range order {
			for _, c := range fi.calls {
				if c.kind > fi.kind {
					fi.kind = c.kind
					changed = true
				}
			}
		}
	}

	var sb strings.Builder
	sb.WriteString("(* GENERATED by srcmodel_presence from internal/impl/presence.go, api_export_opaque.go, bitmap.go\n" +
		"   -- do not edit.  Pointers (unsafe.Pointer, uintptr, *uint32) are absolute 64-bit addresses;\n" +
		"   the memory they point into is h : heap (Msg/PresenceHeap.v).  The receiver presence{P} is the\n" +
		"   parameter v_p_P, the receiver Export{} has no state.  atomic.LoadUint32 = load32,\n" +
		"   atomic.CompareAndSwapUint32 = cas32 (one sequentially consistent step).  Calls of the empty\n" +
		"   race-detector hooks of bitmap.go (build without -race) are dropped. *)\n")
	sb.WriteString("From Coq Require Import List ZArith Bool.\nFrom Coq Require String.\n" +
		"From PB Require Import Base.GoInt Msg.PresenceHeap.\nImport ListNotations.\nImport String.StringSyntax.\n" +
		"Local Open Scope string_scope.\nOpen Scope Z_scope.\n\n")
	var hooks []string
	for _, fi := range u.funcs {
		if fi.empty && strings.HasPrefix(fi.name, "raceDetectHook") {
			n := fi.name
			if fi.recv != "" {
				n = fi.recv + "." + n
			}
			hooks = append(hooks, n)
		}
	}
	sort.Strings(hooks)
	sb.WriteString("(* empty hooks found in bitmap.go: " + strings.Join(hooks, ", ") + " *)\n\n")
	for _, fi := range order {
		tr := &fnTr{u: u, fi: fi}
		tr.translate()
		sb.WriteString(fi.text)
		sb.WriteString("\n")
		if fi.failed != "" {
			incomplete = append(incomplete, fi.coqName+": "+fi.failed)
		}
	}
	for _, tg := range missing {
		n := "go_" + tg.recv + "_" + tg.name
		fmt.Fprintf(&sb, "Definition %s : Unsupported := unsupported \"function not found in the source\".\n\n", n)
		incomplete = append(incomplete, n+": not found")
	}
	if nerr > 0 {
		fmt.Fprintf(&sb, "(* note: type-check errors outside the translated functions were ignored (package impl is not loaded as a whole) *)\n")
	}
	return sb.String(), incomplete, nil
}

// ---------------------------------------------------------------- first pass: calls, kind, loops

func (u *unit) isConst(e ast.Expr) bool {
	tv, ok := u.info.Types[e]
	return ok && tv.Value != nil
}

func (u *unit) isType(e ast.Expr) bool {
	tv, ok := u.info.Types[e]
	return ok && tv.IsType()
}

// callee returns the function of this unit or of sync/atomic that a call expression calls.
func (u *unit) callee(c *ast.CallExpr) *types.Func {
	switch f := unparen(c.Fun).(type) {
	case *ast.Ident:
		fn, _ := u.info.Uses[f].(*types.Func)
		return fn
	case *ast.SelectorExpr:
		fn, _ := u.info.Uses[f.Sel].(*types.Func)
		return fn
	}
	return nil
}

func unparen(e ast.Expr) ast.Expr {
	for {
		p, ok := e.(*ast.ParenExpr)
		if !ok {
			return e
		}
		e = p.X
	}
}

func isAtomic(fn *types.Func, name string) bool {
	return fn != nil && fn.Pkg() != nil && fn.Pkg().Path() == "sync/atomic" && fn.Name() == name
}

func (u *unit) scan(fi *fnInfo) {
	raise := func(k fkind) {
		if k > fi.kind {
			fi.kind = k
		}
	}
	seen := map[*fnInfo]bool{}
	var walk func(n ast.Node) bool
	walk = func(n ast.Node) bool {
		switch n := n.(type) {
		case ast.Expr:
			if u.isConst(n) || u.isType(n) {
				return false
			}
		}
		switch n := n.(type) {
		case *ast.ForStmt:
			fi.hasLoop = true
		case *ast.StarExpr:
			raise(kReader)
		case *ast.AssignStmt:
			for _, l := range n.Lhs {
				if _, ok := unparen(l).(*ast.StarExpr); ok {
					raise(kWriter)
				}
			}
		case *ast.IncDecStmt:
			if _, ok := unparen(n.X).(*ast.StarExpr); ok {
				raise(kWriter)
			}
		case *ast.CallExpr:
			fn := u.callee(n)
			switch {
			case isAtomic(fn, "LoadUint32"):
				raise(kReader)
			case isAtomic(fn, "CompareAndSwapUint32"):
				raise(kWriter)
			case fn != nil && u.funcs[fn] != nil:
				if c := u.funcs[fn]; !seen[c] {
					seen[c] = true
					fi.calls = append(fi.calls, c)
				}
			}
		}
		return true
	}
	ast.Inspect(fi.decl.Body, walk)
}

// writes reports whether a statement (of a function already scanned) stores to memory.
func (u *unit) writes(n ast.Node) bool {
	w := false
	ast.Inspect(n, func(n ast.Node) bool {
		switch n := n.(type) {
		case *ast.AssignStmt:
			for _, l := range n.Lhs {
				if _, ok := unparen(l).(*ast.StarExpr); ok {
					w = true
				}
			}
		case *ast.IncDecStmt:
			if _, ok := unparen(n.X).(*ast.StarExpr); ok {
				w = true
			}
		case *ast.CallExpr:
			fn := u.callee(n)
			if isAtomic(fn, "CompareAndSwapUint32") || (fn != nil && u.funcs[fn] != nil && u.funcs[fn].kind == kWriter) {
				w = true
			}
		}
		return true
	})
	return w
}

// ---------------------------------------------------------------- types

var two = big.NewInt(2)

func pow2(n uint) *big.Int { return new(big.Int).Exp(two, big.NewInt(int64(n)), nil) }

// intInfo: the wrap function and the range of an integer-like Go type (pointers are uint64).
func intInfo(ty types.Type) (wrap string, lo, hi *big.Int, unsigned, ok bool) {
	us := func(bits uint, w string) (string, *big.Int, *big.Int, bool, bool) {
		return w, big.NewInt(0), new(big.Int).Sub(pow2(bits), big.NewInt(1)), true, true
	}
	sg := func(bits uint, w string) (string, *big.Int, *big.Int, bool, bool) {
		return w, new(big.Int).Neg(pow2(bits - 1)), new(big.Int).Sub(pow2(bits-1), big.NewInt(1)), false, true
	}
	switch t := ty.Underlying().(type) {
	case *types.Pointer:
		return us(64, "wrap_u64")
	case *types.Basic:
		switch t.Kind() {
		case types.UnsafePointer, types.Uintptr, types.Uint, types.Uint64:
			return us(64, "wrap_u64")
		case types.Uint32:
			return us(32, "wrap_u32")
		case types.Uint16:
			return us(16, "wrap_u16")
		case types.Uint8:
			return us(8, "wrap_u8")
		case types.Int, types.Int64:
			return sg(64, "wrap_i64")
		case types.Int32:
			return sg(32, "wrap_i32")
		case types.Int16:
			return sg(16, "wrap_i16")
		case types.Int8:
			return sg(8, "wrap_i8")
		}
	}
	return "", nil, nil, false, false
}

func isU32Ptr(ty types.Type) bool {
	p, ok := ty.Underlying().(*types.Pointer)
	if !ok {
		return false
	}
	b, ok := p.Elem().Underlying().(*types.Basic)
	return ok && b.Kind() == types.Uint32
}

func coqType(ty types.Type) (string, bool) {
	switch t := ty.Underlying().(type) {
	case *types.Basic:
		if t.Info()&types.IsBoolean != 0 {
			return "bool", true
		}
		if t.Info()&types.IsInteger != 0 || t.Kind() == types.UnsafePointer {
			return "Z", true
		}
	case *types.Pointer:
		if isU32Ptr(ty) {
			return "Z", true
		}
	}
	return "", false
}

func zlit(v constant.Value) string {
	s := constant.ToInt(v).ExactString()
	if strings.HasPrefix(s, "-") {
		return "(" + s + ")"
	}
	return s
}

// ---------------------------------------------------------------- second pass: one function

type cont func(ind string) string

type fnTr struct {
	u       *unit
	fi      *fnInfo
	names   map[*types.Var]string
	used    map[string]bool
	recvVar *types.Var
	pend    []string // hoisted binds of the statement being translated
	nt      int
	nloop   int
	outcome bool
	resTy   string // Coq type of the Go result ("" for none)
	result  string // Coq result type of the function
	inLoop  int
}

type unsupported struct{ reason string }

func (t *fnTr) fail(n ast.Node, format string, a ...any) {
	panic(unsupported{fmt.Sprintf("%s: %s", t.u.pos(n.Pos()), fmt.Sprintf(format, a...))})
}

func (t *fnTr) declare(v *types.Var) string {
	base := "v_" + v.Name()
	n := base
	for i := 2; t.used[n]; i++ {
		n = fmt.Sprintf("%s%d", base, i)
	}
	t.used[n] = true
	t.names[v] = n
	return n
}

// paramsOf: the Coq parameters a function of this unit takes, in order.
func (t *fnTr) translate() {
	fi := t.fi
	defer func() {
		if r := recover(); r != nil {
			us, ok := r.(unsupported)
			if !ok {
				panic(r)
			}
			fi.failed = us.reason
			fi.text = fmt.Sprintf("Definition %s : Unsupported := unsupported %q.\n", fi.coqName, us.reason)
		}
	}()
	if fi.failed != "" {
		panic(unsupported{fi.failed})
	}
	t.names = map[*types.Var]string{}
	t.used = map[string]bool{"h": true}
	sig := fi.obj.Type().(*types.Signature)
	var binders []string
	if fi.kind != kPure {
		binders = append(binders, "(h : heap)")
	}
	switch fi.recv {
	case "":
	case "Export":
	case "presence":
		binders = append(binders, "(v_p_P : Z)")
		t.used["v_p_P"] = true
		if sig.Recv() != nil && sig.Recv().Name() != "" && sig.Recv().Name() != "_" {
			t.recvVar = sig.Recv()
		}
	default:
		t.fail(fi.decl, "receiver type %s", fi.recv)
	}
	for i := 0; i < sig.Params().Len(); i++ {
		p := sig.Params().At(i)
		ct, ok := coqType(p.Type())
		if !ok {
			t.fail(fi.decl, "parameter %s of type %s", p.Name(), p.Type())
		}
		binders = append(binders, fmt.Sprintf("(%s : %s)", t.declare(p), ct))
	}
	switch sig.Results().Len() {
	case 0:
	case 1:
		ct, ok := coqType(sig.Results().At(0).Type())
		if !ok {
			t.fail(fi.decl, "result of type %s", sig.Results().At(0).Type())
		}
		t.resTy = ct
	default:
		t.fail(fi.decl, "more than one result")
	}
	t.outcome = fi.kind != kPure || fi.hasLoop
	switch {
	case fi.kind == kWriter && t.resTy == "":
		t.result = "outcome heap"
	case fi.kind == kWriter:
		t.result = "outcome (heap * " + t.resTy + ")"
	case t.resTy == "":
		t.fail(fi.decl, "function without result and without effect")
	case t.outcome:
		t.result = "outcome " + t.resTy
	default:
		t.result = t.resTy
	}
	body := t.stmts(fi.decl.Body.List, func(ind string) string {
		if t.resTy != "" {
			t.fail(fi.decl, "missing return")
		}
		return ind + t.ret("")
	}, "  ")
	fi.text = fmt.Sprintf("Definition %s %s : %s :=\n%s.\n", fi.coqName, strings.Join(binders, " "), t.result, body)
}

// ret: the term a return statement (with the translated result value v, "" for none) becomes.
func (t *fnTr) ret(v string) string {
	switch {
	case t.fi.kind == kWriter && v == "":
		return "Val h"
	case t.fi.kind == kWriter:
		return "Val (h, " + v + ")"
	case t.outcome:
		return "Val " + v
	}
	return v
}

// flush turns the pending hoisted binds into the lines that precede the current statement and
// the parentheses that close them after the rest of the block.
func (t *fnTr) flush(ind string) (pre, post string) {
	for _, p := range t.pend {
		pre += ind + p + "\n"
		post += ")"
	}
	t.pend = nil
	return
}

func (t *fnTr) hoist(op string) string {
	if !t.outcome {
		panic(unsupported{"internal: hoisting in a function that is not outcome-typed"})
	}
	t.nt++
	n := fmt.Sprintf("t%d", t.nt)
	t.pend = append(t.pend, fmt.Sprintf("bind (%s) (fun %s =>", op, n))
	return n
}

func (t *fnTr) stmts(list []ast.Stmt, k cont, ind string) string {
	if len(list) == 0 {
		return k(ind)
	}
	rest := func(ind string) string { return t.stmts(list[1:], k, ind) }
	switch s := list[0].(type) {
	case *ast.EmptyStmt:
		return rest(ind)
	case *ast.BlockStmt:
		return t.stmts(s.List, rest, ind)
	case *ast.DeclStmt:
		gd, ok := s.Decl.(*ast.GenDecl)
		if !ok || gd.Tok != token.CONST {
			t.fail(s, "local declaration other than const")
		}
		return rest(ind) // uses of local constants are folded by the type checker
	case *ast.ReturnStmt:
		switch {
		case len(s.Results) == 0 && t.resTy == "":
			return ind + t.ret("")
		case len(s.Results) == 1 && t.resTy != "":
			t.pend = nil
			v := t.expr(s.Results[0])
			pre, post := t.flush(ind)
			return pre + ind + t.ret(v) + post
		}
		t.fail(s, "return statement of this form")
	case *ast.ExprStmt:
		call, ok := unparen(s.X).(*ast.CallExpr)
		if !ok {
			t.fail(s, "expression statement")
		}
		fn := t.u.callee(call)
		c := t.u.funcs[fn]
		if fn == nil || c == nil {
			t.fail(s, "call statement of an unknown function")
		}
		if c.empty {
			// the arguments must not have effects of their own
			t.pend = nil
			for _, a := range call.Args {
				t.expr(a)
			}
			if len(t.pend) > 0 {
				t.fail(s, "argument with memory access in a dropped call")
			}
			return rest(ind)
		}
		if c.kind != kWriter {
			t.fail(s, "call statement of a function without effect")
		}
		if c.obj.Type().(*types.Signature).Results().Len() != 0 {
			t.fail(s, "call statement dropping a result")
		}
		t.pend = nil
		app := t.app(call, c)
		pre, post := t.flush(ind)
		return pre + ind + "bind (" + app + ") (fun h =>\n" + rest(ind) + ")" + post
	case *ast.IncDecStmt:
		one := &ast.BasicLit{Kind: token.INT, Value: "1"}
		op := token.ADD_ASSIGN
		if s.Tok == token.DEC {
			op = token.SUB_ASSIGN
		}
		return t.assign(s, s.X, op, one, "1", rest, ind)
	case *ast.AssignStmt:
		if len(s.Lhs) != 1 || len(s.Rhs) != 1 {
			t.fail(s, "tuple assignment")
		}
		return t.assign(s, s.Lhs[0], s.Tok, s.Rhs[0], "", rest, ind)
	case *ast.IfStmt:
		if s.Init != nil {
			t.fail(s, "if with init statement")
		}
		t.pend = nil
		c := t.expr(s.Cond)
		pre, post := t.flush(ind)
		a := t.stmts(s.Body.List, rest, ind+"  ")
		var b string
		switch e := s.Else.(type) {
		case nil:
			b = rest(ind + "  ")
		case *ast.BlockStmt:
			b = t.stmts(e.List, rest, ind+"  ")
		case *ast.IfStmt:
			b = t.stmts([]ast.Stmt{e}, rest, ind+"  ")
		}
		return fmt.Sprintf("%s%sif %s then\n%s\n%selse\n%s%s", pre, ind, c, a, ind, b, post)
	case *ast.ForStmt:
		return t.forStmt(s, rest, ind)
	}
	t.fail(list[0], "statement %T", list[0])
	return ""
}

// assign translates  lhs op rhs  (op is =, := or an assignment operation).
func (t *fnTr) assign(s ast.Stmt, lhs ast.Expr, op token.Token, rhs ast.Expr, rhsText string, rest cont, ind string) string {
	t.pend = nil
	if star, ok := unparen(lhs).(*ast.StarExpr); ok {
		if !isU32Ptr(t.u.info.Types[star.X].Type) {
			t.fail(s, "store through a pointer that is not *uint32")
		}
		p := t.expr(star.X)
		var v string
		if op == token.ASSIGN {
			v = t.expr(rhs)
		} else {
			old := t.hoist("load32 h " + p)
			v = t.binop(s, assignOp(t, s, op), old, t.exprOr(rhs, rhsText), types.Typ[types.Uint32], rhs)
		}
		pre, post := t.flush(ind)
		return pre + ind + "bind (store32 h " + p + " " + v + ") (fun h =>\n" + rest(ind) + ")" + post
	}
	id, ok := unparen(lhs).(*ast.Ident)
	if !ok {
		t.fail(s, "assignment to %T", lhs)
	}
	var v *types.Var
	var name string
	if op == token.DEFINE {
		v, _ = t.u.info.Defs[id].(*types.Var)
		if v == nil {
			t.fail(s, "redeclaration in :=")
		}
	} else {
		v, _ = t.u.info.Uses[id].(*types.Var)
		if v == nil || t.names[v] == "" {
			t.fail(s, "assignment to %s", id.Name)
		}
	}
	if _, ok := coqType(v.Type()); !ok {
		t.fail(s, "variable %s of type %s", id.Name, v.Type())
	}
	var val string
	if op == token.DEFINE || op == token.ASSIGN {
		val = t.expr(rhs)
	} else {
		val = t.binop(s, assignOp(t, s, op), t.names[v], t.exprOr(rhs, rhsText), v.Type(), rhs)
	}
	if op == token.DEFINE {
		name = t.declare(v)
	} else {
		name = t.names[v]
	}
	pre, post := t.flush(ind)
	return pre + ind + "let " + name + " := " + val + " in\n" + rest(ind) + post
}

func (t *fnTr) exprOr(e ast.Expr, text string) string {
	if text != "" {
		return text
	}
	return t.expr(e)
}

func assignOp(t *fnTr, s ast.Stmt, op token.Token) token.Token {
	m := map[token.Token]token.Token{
		token.ADD_ASSIGN: token.ADD, token.SUB_ASSIGN: token.SUB, token.MUL_ASSIGN: token.MUL,
		token.AND_ASSIGN: token.AND, token.OR_ASSIGN: token.OR, token.XOR_ASSIGN: token.XOR,
		token.AND_NOT_ASSIGN: token.AND_NOT, token.SHL_ASSIGN: token.SHL, token.SHR_ASSIGN: token.SHR,
		token.QUO_ASSIGN: token.QUO, token.REM_ASSIGN: token.REM,
	}
	r, ok := m[op]
	if !ok {
		t.fail(s, "assignment operator %s", op)
	}
	return r
}

// forStmt: "for {}", "for c {}" and "for i; c; p {}" as a fix over fuel, emitted in place.  The
// loop state is h (when the body stores) and the variables declared outside the body that the
// body or the post statement assign.  Fuel: S (Y - X) for a condition X < Y; the constant
// cas_retry_fuel for a condition-less loop around a CompareAndSwap.
func (t *fnTr) forStmt(s *ast.ForStmt, rest cont, ind string) string {
	if s.Init != nil {
		s2 := *s
		s2.Init = nil
		return t.stmts([]ast.Stmt{s.Init, &s2}, rest, ind)
	}
	if t.inLoop > 0 {
		t.fail(s, "nested loop")
	}
	ast.Inspect(s.Body, func(n ast.Node) bool {
		if b, ok := n.(*ast.BranchStmt); ok {
			t.fail(b, "%s in a loop", b.Tok)
		}
		return true
	})
	var state []*types.Var
	seen := map[*types.Var]bool{}
	add := func(e ast.Expr) {
		id, ok := unparen(e).(*ast.Ident)
		if !ok {
			return
		}
		v, ok := t.u.info.Uses[id].(*types.Var)
		if !ok || seen[v] || t.names[v] == "" {
			return
		}
		if v.Pos() >= s.Body.Pos() && v.Pos() < s.Body.End() {
			return
		}
		seen[v] = true
		state = append(state, v)
	}
	collect := func(n ast.Node) {
		ast.Inspect(n, func(n ast.Node) bool {
			switch n := n.(type) {
			case *ast.AssignStmt:
				for _, l := range n.Lhs {
					add(l)
				}
			case *ast.IncDecStmt:
				add(n.X)
			}
			return true
		})
	}
	collect(s.Body)
	if s.Post != nil {
		collect(s.Post)
	}
	var binders, names []string
	if t.u.writes(s.Body) || (s.Post != nil && t.u.writes(s.Post)) {
		binders = append(binders, "(h : heap)")
		names = append(names, "h")
	}
	for _, v := range state {
		ct, _ := coqType(v.Type())
		binders = append(binders, fmt.Sprintf("(%s : %s)", t.names[v], ct))
		names = append(names, t.names[v])
	}
	var fuel, cond string
	if s.Cond == nil {
		hasCAS := false
		ast.Inspect(s.Body, func(n ast.Node) bool {
			if c, ok := n.(*ast.CallExpr); ok && isAtomic(t.u.callee(c), "CompareAndSwapUint32") {
				hasCAS = true
			}
			return true
		})
		if !hasCAS || s.Post != nil {
			t.fail(s, "loop without condition that is not a compare-and-swap retry loop")
		}
		fuel = "cas_retry_fuel"
	} else {
		be, ok := unparen(s.Cond).(*ast.BinaryExpr)
		if !ok || be.Op != token.LSS {
			t.fail(s, "loop condition that is not of the form x < y")
		}
		t.pend = nil
		x, y := t.expr(be.X), t.expr(be.Y)
		if len(t.pend) > 0 {
			t.fail(s, "loop condition with memory access")
		}
		cond = "(" + x + " <? " + y + ")"
		fuel = "(S (Z.to_nat (" + y + " - " + x + ")))"
	}
	if !t.outcome {
		t.fail(s, "internal: loop in a function that is not outcome-typed")
	}
	t.nloop++
	name := fmt.Sprintf("loop%d", t.nloop)
	again := func(ind string) string { return ind + name + " lfuel' " + strings.Join(names, " ") }
	next := cont(again)
	if s.Post != nil {
		next = func(ind string) string { return t.stmts([]ast.Stmt{s.Post}, again, ind) }
	}
	in := ind + "    "
	head := fmt.Sprintf("%s(fix %s (lfuel : nat) %s {struct lfuel} : %s :=\n%s  match lfuel with\n%s  | O => Fuel\n%s  | S lfuel' =>\n",
		ind, name, strings.Join(binders, " "), t.result, ind, ind, ind)
	tail := fmt.Sprintf("\n%s  end) %s %s", ind, fuel, strings.Join(names, " "))
	var inner string
	t.inLoop++
	if s.Cond == nil {
		inner = t.stmts(s.Body.List, next, in)
		t.inLoop--
	} else {
		a := t.stmts(s.Body.List, next, in+"  ")
		t.inLoop--
		b := rest(in + "  ")
		inner = fmt.Sprintf("%sif %s then\n%s\n%selse\n%s", in, cond, a, in, b)
	}
	return head + inner + tail
}

// ---------------------------------------------------------------- expressions

func (t *fnTr) expr(e ast.Expr) string {
	tv, ok := t.u.info.Types[e]
	if ok && tv.Value != nil {
		switch tv.Value.Kind() {
		case constant.Bool:
			if constant.BoolVal(tv.Value) {
				return "true"
			}
			return "false"
		case constant.Int:
			return zlit(tv.Value)
		}
		t.fail(e, "constant of kind %v", tv.Value.Kind())
	}
	if ok && tv.IsNil() {
		return "0"
	}
	switch e := e.(type) {
	case *ast.ParenExpr:
		return t.expr(e.X)
	case *ast.Ident:
		if v, ok := t.u.info.Uses[e].(*types.Var); ok && t.names[v] != "" {
			return t.names[v]
		}
		t.fail(e, "identifier %s", e.Name)
	case *ast.SelectorExpr:
		if id, ok := unparen(e.X).(*ast.Ident); ok && t.recvVar != nil && t.u.info.Uses[id] == t.recvVar && e.Sel.Name == "P" {
			return "v_p_P"
		}
		t.fail(e, "selector expression")
	case *ast.StarExpr:
		if !isU32Ptr(t.u.info.Types[e.X].Type) {
			t.fail(e, "dereference of a pointer that is not *uint32")
		}
		return t.hoist("load32 h " + t.expr(e.X))
	case *ast.UnaryExpr:
		if e.Op == token.NOT {
			return "(negb " + t.expr(e.X) + ")"
		}
		t.fail(e, "unary operator %s", e.Op)
	case *ast.BinaryExpr:
		switch e.Op {
		case token.LAND, token.LOR:
			x := t.expr(e.X)
			n := len(t.pend)
			y := t.expr(e.Y)
			if len(t.pend) != n {
				t.fail(e, "memory access in the right operand of %s", e.Op)
			}
			if e.Op == token.LAND {
				return "(" + x + " && " + y + ")"
			}
			return "(" + x + " || " + y + ")"
		case token.EQL, token.NEQ, token.LSS, token.GTR, token.LEQ, token.GEQ:
			for _, o := range []ast.Expr{e.X, e.Y} {
				otv := t.u.info.Types[o]
				if _, _, _, _, ok := intInfo(otv.Type); !ok && !otv.IsNil() && otv.Value == nil {
					t.fail(e, "comparison of operands of type %s", otv.Type)
				}
			}
			x, y := t.expr(e.X), t.expr(e.Y)
			switch e.Op {
			case token.EQL:
				return "(" + x + " =? " + y + ")"
			case token.NEQ:
				return "(negb (" + x + " =? " + y + "))"
			case token.LSS:
				return "(" + x + " <? " + y + ")"
			case token.GTR:
				return "(" + y + " <? " + x + ")"
			case token.LEQ:
				return "(" + x + " <=? " + y + ")"
			default:
				return "(" + y + " <=? " + x + ")"
			}
		}
		x, y := t.expr(e.X), t.expr(e.Y)
		return t.binop(e, e.Op, x, y, tv.Type, e.Y)
	case *ast.CallExpr:
		return t.call(e)
	}
	t.fail(e, "expression %T", e)
	return ""
}

// binop: x op y at Go type ty (yExpr: the right operand, for the constant-divisor check).
func (t *fnTr) binop(n ast.Node, op token.Token, x, y string, ty types.Type, yExpr ast.Expr) string {
	wrap, _, _, unsigned, ok := intInfo(ty)
	if !ok {
		t.fail(n, "arithmetic at type %s", ty)
	}
	if _, isPtr := ty.Underlying().(*types.Pointer); isPtr {
		t.fail(n, "arithmetic on a typed pointer")
	}
	posConst := func() bool {
		tv, ok := t.u.info.Types[yExpr]
		return ok && tv.Value != nil && tv.Value.Kind() == constant.Int && constant.Sign(tv.Value) > 0
	}
	switch op {
	case token.ADD:
		return "(" + wrap + " (" + x + " + " + y + "))"
	case token.SUB:
		return "(" + wrap + " (" + x + " - " + y + "))"
	case token.MUL:
		return "(" + wrap + " (" + x + " * " + y + "))"
	case token.QUO:
		if !posConst() {
			t.fail(n, "division by something that is not a positive constant")
		}
		return "(Z.quot " + x + " " + y + ")"
	case token.REM:
		if !posConst() {
			t.fail(n, "remainder by something that is not a positive constant")
		}
		return "(Z.rem " + x + " " + y + ")"
	}
	if !unsigned {
		t.fail(n, "bit operation %s at a signed type", op)
	}
	switch op {
	case token.AND:
		return "(Z.land " + x + " " + y + ")"
	case token.OR:
		return "(Z.lor " + x + " " + y + ")"
	case token.XOR:
		return "(Z.lxor " + x + " " + y + ")"
	case token.AND_NOT:
		return "(Z.ldiff " + x + " " + y + ")"
	case token.SHL, token.SHR:
		ytv := t.u.info.Types[yExpr]
		if _, _, _, yuns, ok := intInfo(ytv.Type); !(ok && yuns) && !(ytv.Value != nil && constant.Sign(ytv.Value) >= 0) {
			t.fail(n, "shift count that is neither unsigned nor a non-negative constant")
		}
		if op == token.SHL {
			return "(" + wrap + " (Z.shiftl " + x + " " + y + "))"
		}
		return "(Z.shiftr " + x + " " + y + ")"
	}
	t.fail(n, "operator %s", op)
	return ""
}

// app: application of a function of this unit to the translated arguments of the call.
func (t *fnTr) app(call *ast.CallExpr, c *fnInfo) string {
	var args []string
	if c.kind != kPure {
		args = append(args, "h")
	}
	switch c.recv {
	case "":
	case "Export":
		// Export is struct{}: the receiver expression has no state; it must have no effect either
		sel, ok := unparen(call.Fun).(*ast.SelectorExpr)
		if !ok {
			t.fail(call, "method value")
		}
		if cl, ok := unparen(sel.X).(*ast.CompositeLit); !ok || len(cl.Elts) != 0 {
			t.fail(call, "receiver of an Export method that is not Export{}")
		}
	case "presence":
		sel, ok := unparen(call.Fun).(*ast.SelectorExpr)
		if !ok {
			t.fail(call, "method value")
		}
		id, ok := unparen(sel.X).(*ast.Ident)
		if !ok || t.recvVar == nil || t.u.info.Uses[id] != t.recvVar {
			t.fail(call, "method call on a presence value other than the receiver")
		}
		args = append(args, "v_p_P")
	default:
		t.fail(call, "method of %s", c.recv)
	}
	sig := c.obj.Type().(*types.Signature)
	if sig.Variadic() || len(call.Args) != sig.Params().Len() {
		t.fail(call, "argument count")
	}
	for _, a := range call.Args {
		args = append(args, t.expr(a))
	}
	return c.coqName + " " + strings.Join(args, " ")
}

func (t *fnTr) call(e *ast.CallExpr) string {
	// conversion
	if t.u.isType(e.Fun) {
		if len(e.Args) != 1 {
			t.fail(e, "conversion")
		}
		to := t.u.info.Types[e.Fun].Type
		from := t.u.info.Types[e.Args[0]].Type
		wrap, tlo, thi, _, ok1 := intInfo(to)
		_, flo, fhi, _, ok2 := intInfo(from)
		if !ok1 || !ok2 {
			t.fail(e, "conversion from %s to %s", from, to)
		}
		x := t.expr(e.Args[0])
		if flo.Cmp(tlo) >= 0 && fhi.Cmp(thi) <= 0 {
			return x
		}
		return "(" + wrap + " " + x + ")"
	}
	fn := t.u.callee(e)
	switch {
	case isAtomic(fn, "LoadUint32"):
		return t.hoist("load32 h " + t.expr(e.Args[0]))
	case isAtomic(fn, "CompareAndSwapUint32"):
		p, o, n := t.expr(e.Args[0]), t.expr(e.Args[1]), t.expr(e.Args[2])
		r := t.hoist("cas32 h " + p + " " + o + " " + n)
		t.pend[len(t.pend)-1] += " let h := fst " + r + " in"
		return "(snd " + r + ")"
	}
	c := t.u.funcs[fn]
	if fn == nil || c == nil {
		t.fail(e, "call of an unknown function")
	}
	if c.empty || c.obj.Type().(*types.Signature).Results().Len() != 1 {
		t.fail(e, "call of a function without a single result in an expression")
	}
	app := t.app(e, c)
	switch {
	case c.kind == kWriter:
		r := t.hoist(app)
		t.pend[len(t.pend)-1] += " let h := fst " + r + " in"
		return "(snd " + r + ")"
	case c.kind == kReader || c.hasLoop:
		return t.hoist(app)
	}
	return "(" + app + ")"
}
