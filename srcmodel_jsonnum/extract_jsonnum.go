package main

import (
	"fmt"
	"os"
	"path/filepath"
	"strings"
)

// jsonnumExpected lists the functions of internal/encoding/json (Coq name
// without the "go_" prefix) that the proofs of Json/JsonNumGoP.v rely on.
// When one of them is no longer translatable the extractor still writes its
// output but exits with status 3.
var jsonnumExpected = []string{
	"isNotDelim", "parseNumber",
}

// extractJsonNum generates Gen/JsonNumGo.v from
// internal/encoding/json/decode_number.go (+ isNotDelim of decode.go).
func extractJsonNum(repo string) error {
	only := map[string]bool{}
	for _, n := range jsonnumExpected {
		only[n] = true
	}
	return extractGoFiles(repo, "internal/encoding/json/decode_number.go", []string{"decode.go"}, "JsonNumGo.v", jsonnumExpected, only)
}

// extractGoFiles translates selected functions of one Go source file of the
// repository (path relative to the repository root, slash separated; extra
// names further files of the same package that define callees) into one
// generated Coq file and checks the expected-translatable list.
func extractGoFiles(repo, rel string, extra []string, target string, expected []string, only map[string]bool) error {
	u, err := TranslateFiles(filepath.Join(repo, filepath.FromSlash(rel)), extra, only)
	if err != nil {
		return err
	}
	for _, n := range u.Notes {
		fmt.Fprintf(os.Stderr, "srcmodel: note: %s\n", n)
	}
	if err := writeGenerated(target, u.Render(rel)); err != nil {
		return err
	}
	byName := map[string]*FuncDef{}
	for _, f := range u.Funcs {
		byName[f.Name] = f
		if f.Unsupported != "" {
			fmt.Fprintf(os.Stderr, "srcmodel: %s: %s is unsupported: %s\n", rel, f.CoqName, f.Unsupported)
		}
	}
	var missing []string
	for _, n := range expected {
		switch f := byName[n]; {
		case f == nil:
			fmt.Fprintf(os.Stderr, "srcmodel: %s: expected function %s not found\n", rel, n)
			missing = append(missing, n)
		case f.Unsupported != "":
			missing = append(missing, n)
		}
	}
	if len(missing) > 0 {
		return fmt.Errorf("%w: %s", errIncomplete, strings.Join(missing, " "))
	}
	return nil
}
