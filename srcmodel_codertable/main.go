// Command srcmodel_codertable is a Tier T extractor (stdlib only, go/parser): it reads
// internal/impl/codec_tables.go and emits coq/theories/Gen/CoderTable.v with
//
//   - table: the nested switches of fieldCoder and encoderFuncsForValue as a decision table in
//     source order; one row per `return`:  function, cardinality class (from the outer `case`),
//     kind (from the inner `case protoreflect.XKind`), Go field type test, condition on
//     strs.EnforceUTF8(fd), condition on fd.HasPresence(), selected coder identifier;
//   - coder_funcs: for every `var coderX = pointerCoderFuncs{...}` / `valueCoderFuncs{...}` of
//     package impl, the marshal and unmarshal functions it names, and whether the bodies of those
//     functions call utf8.Valid / utf8.ValidString.
//
// Anything outside the recognised shapes is emitted as "Unclassified" (the theorems then fail).
//
// Usage: srcmodel_codertable codertable <repo>      prints "WRITE <tmpfile>"
package main

import (
	"bytes"
	"fmt"
	"go/ast"
	"go/parser"
	"go/printer"
	"go/token"
	"os"
	"path/filepath"
	"sort"
	"strings"
)

func fail(format string, a ...any) {
	fmt.Fprintf(os.Stderr, "codertable: "+format+"\n", a...)
	os.Exit(1)
}

var fset = token.NewFileSet()

func src(n ast.Node) string {
	var b bytes.Buffer
	printer.Fprint(&b, fset, n)
	return strings.Join(strings.Fields(b.String()), " ")
}

type row struct {
	fn, cls, kind, gotype, coder string
	enforce, presence         string // "None", "Some true", "Some false"
	note                      string
}

// the outer `case` conditions, by their source text
var classes = map[string]struct{ cls, presence string }{
	"fd.IsMap()": {"Map", "None"},
	"fd.Cardinality() == protoreflect.Repeated && !fd.IsPacked()": {"Slice", "None"},
	"fd.Cardinality() == protoreflect.Repeated && fd.IsPacked()":  {"PackedSlice", "None"},
	"fd.Kind() == protoreflect.MessageKind":                       {"Message", "None"},
	"fd.Kind() == protoreflect.GroupKind":                         {"Group", "None"},
	"!fd.HasPresence() && fd.ContainingOneof() == nil":            {"NoZero", "Some false"},
	"ft.Kind() == reflect.Ptr":                                    {"Ptr", "None"},
	"default":                                                     {"Singular", "None"},
}

func splitAnd(e ast.Expr) []ast.Expr {
	if p, ok := e.(*ast.ParenExpr); ok {
		return splitAnd(p.X)
	}
	if b, ok := e.(*ast.BinaryExpr); ok && b.Op == token.LAND {
		return append(splitAnd(b.X), splitAnd(b.Y)...)
	}
	return []ast.Expr{e}
}

// cond classifies the condition of an inner `if`: Go field type test and EnforceUTF8 condition.
func cond(e ast.Expr) (gotype, enforce string) {
	gotype, enforce = "Any", "None"
	var kinds []string
	for _, a := range splitAnd(e) {
		s := src(a)
		switch {
		case s == "strs.EnforceUTF8(fd)":
			enforce = "Some true"
		case s == "!strs.EnforceUTF8(fd)":
			enforce = "Some false"
		case strings.HasPrefix(s, "ft.Kind() == reflect."):
			kinds = append(kinds, strings.TrimPrefix(s, "ft.Kind() == reflect."))
		case strings.HasPrefix(s, "ft.Elem().Kind() == reflect."):
			kinds = append(kinds, "Elem"+strings.TrimPrefix(s, "ft.Elem().Kind() == reflect."))
		default:
			return "Unclassified", enforce
		}
	}
	switch {
	case len(kinds) == 0:
	case len(kinds) == 1 && !strings.HasPrefix(kinds[0], "Elem"):
		gotype = kinds[0]
	case len(kinds) == 2 && kinds[0] == "Slice" && kinds[1] == "ElemUint8":
		gotype = "Bytes"
	default:
		gotype = "Unclassified"
	}
	return
}

// coderOf extracts the coder identifier of a return statement: `return nil, coderX`, `return coderX`,
// `return getMessageInfo(ft), makeXFieldCoder(fd, ft)`, `return encoderFuncsForMap(fd, ft)`.
func coderOf(r *ast.ReturnStmt) string {
	if len(r.Results) == 0 {
		return "Unclassified"
	}
	last := r.Results[len(r.Results)-1]
	switch x := last.(type) {
	case *ast.Ident:
		return x.Name
	case *ast.CallExpr:
		if id, ok := x.Fun.(*ast.Ident); ok {
			return id.Name
		}
	}
	return "Unclassified"
}

// stmts turns the statements of one (class, kind) cell into rows.
func stmts(fn, cls, presence, kind string, list []ast.Stmt, out *[]row) {
	for _, s := range list {
		switch x := s.(type) {
		case *ast.ReturnStmt:
			*out = append(*out, row{fn: fn, cls: cls, kind: kind, gotype: "Any", enforce: "None", presence: presence, coder: coderOf(x)})
		case *ast.IfStmt:
			if x.Init != nil || x.Else != nil || len(x.Body.List) != 1 {
				*out = append(*out, row{fn: fn, cls: cls, kind: kind, gotype: "Unclassified", enforce: "None", presence: presence, coder: "Unclassified", note: src(x.Cond)})
				continue
			}
			ret, ok := x.Body.List[0].(*ast.ReturnStmt)
			if !ok {
				*out = append(*out, row{fn: fn, cls: cls, kind: kind, gotype: "Unclassified", enforce: "None", presence: presence, coder: "Unclassified", note: src(x.Cond)})
				continue
			}
			g, e := cond(x.Cond)
			*out = append(*out, row{fn: fn, cls: cls, kind: kind, gotype: g, enforce: e, presence: presence, coder: coderOf(ret), note: src(x.Cond)})
		default:
			*out = append(*out, row{fn: fn, cls: cls, kind: kind, gotype: "Unclassified", enforce: "None", presence: presence, coder: "Unclassified", note: src(s)})
		}
	}
}

func extractFunc(fd *ast.FuncDecl, out *[]row) {
	fn := fd.Name.Name
	var outer *ast.SwitchStmt
	for _, s := range fd.Body.List {
		if sw, ok := s.(*ast.SwitchStmt); ok && sw.Tag == nil && outer == nil {
			outer = sw
		}
	}
	if outer == nil {
		*out = append(*out, row{fn: fn, cls: "Unclassified", kind: "Any", gotype: "Unclassified", enforce: "None", presence: "None", coder: "Unclassified", note: "no top-level switch"})
		return
	}
	for _, c := range outer.Body.List {
		cc := c.(*ast.CaseClause)
		text := "default"
		if len(cc.List) == 1 {
			text = src(cc.List[0])
		} else if len(cc.List) > 1 {
			text = "multiple"
		}
		k, ok := classes[text]
		cls, presence := k.cls, k.presence
		if !ok {
			cls, presence = "Unclassified", "None"
		}
		if fn == "encoderFuncsForValue" && ok {
			switch cls {
			case "Slice":
				cls = "SliceValue"
			case "PackedSlice":
				cls = "PackedSliceValue"
			case "Singular":
				cls = "Value"
			}
		}
		fixedKind := "Any"
		if cls == "Message" || cls == "Group" {
			fixedKind = cls
		}
		for _, s := range cc.Body {
			switch x := s.(type) {
			case *ast.SwitchStmt:
				if x.Tag == nil || src(x.Tag) != "fd.Kind()" {
					*out = append(*out, row{fn: fn, cls: cls, kind: "Any", gotype: "Unclassified", enforce: "None", presence: presence, coder: "Unclassified", note: "inner switch"})
					continue
				}
				for _, ic := range x.Body.List {
					icc := ic.(*ast.CaseClause)
					if len(icc.List) == 0 {
						stmts(fn, cls, presence, "Default", icc.Body, out)
						continue
					}
					for _, ke := range icc.List {
						kind := src(ke)
						if strings.HasPrefix(kind, "protoreflect.") && strings.HasSuffix(kind, "Kind") {
							kind = strings.TrimSuffix(strings.TrimPrefix(kind, "protoreflect."), "Kind")
						} else {
							kind = "Unclassified"
						}
						stmts(fn, cls, presence, kind, icc.Body, out)
					}
				}
			case *ast.ReturnStmt:
				stmts(fn, cls, presence, fixedKind, []ast.Stmt{x}, out)
			case *ast.IfStmt:
				// the guard `if ft.Kind() != reflect.Slice { break }` of the slice classes
				if s := src(x); s == "if ft.Kind() != reflect.Slice { break }" {
					continue
				}
				stmts(fn, cls, presence, fixedKind, []ast.Stmt{x}, out)
			case *ast.AssignStmt:
				if src(x) == "ft := ft.Elem()" {
					continue
				}
				*out = append(*out, row{fn: fn, cls: cls, kind: "Any", gotype: "Unclassified", enforce: "None", presence: presence, coder: "Unclassified", note: src(x)})
			default:
				*out = append(*out, row{fn: fn, cls: cls, kind: "Any", gotype: "Unclassified", enforce: "None", presence: presence, coder: "Unclassified", note: src(s)})
			}
		}
	}
}

func q(s string) string { return `"` + strings.ReplaceAll(s, `"`, `""`) + `"` }

// callsUTF8Valid reports whether a function body calls utf8.Valid or utf8.ValidString.
func callsUTF8Valid(fd *ast.FuncDecl) bool {
	found := false
	ast.Inspect(fd, func(n ast.Node) bool {
		if c, ok := n.(*ast.CallExpr); ok {
			if s, ok := c.Fun.(*ast.SelectorExpr); ok {
				if id, ok := s.X.(*ast.Ident); ok && id.Name == "utf8" && (s.Sel.Name == "Valid" || s.Sel.Name == "ValidString") {
					found = true
				}
			}
		}
		return true
	})
	return found
}

func main() {
	if len(os.Args) != 3 || os.Args[1] != "codertable" {
		fail("usage: srcmodel_codertable codertable <repo>")
	}
	dir := filepath.Join(os.Args[2], "internal", "impl")
	pkgs, err := parser.ParseDir(fset, dir, func(fi os.FileInfo) bool { return !strings.HasSuffix(fi.Name(), "_test.go") }, 0)
	if err != nil {
		fail("%v", err)
	}
	pkg := pkgs["impl"]
	if pkg == nil {
		fail("package impl not found in %s", dir)
	}
	var names []string
	for n := range pkg.Files {
		names = append(names, n)
	}
	sort.Strings(names)
	funcs := map[string]*ast.FuncDecl{}
	type coderVar struct{ name, marshal, unmarshal string }
	var coders []coderVar
	var rows []row
	seenFn := map[string]bool{}
	for _, n := range names {
		f := pkg.Files[n]
		for _, d := range f.Decls {
			switch x := d.(type) {
			case *ast.FuncDecl:
				if x.Recv == nil {
					funcs[x.Name.Name] = x
				}
				if filepath.Base(n) == "codec_tables.go" && x.Recv == nil && (x.Name.Name == "fieldCoder" || x.Name.Name == "encoderFuncsForValue") {
					extractFunc(x, &rows)
					seenFn[x.Name.Name] = true
				}
			case *ast.GenDecl:
				if x.Tok != token.VAR {
					continue
				}
				for _, sp := range x.Specs {
					vs := sp.(*ast.ValueSpec)
					if len(vs.Names) != 1 || len(vs.Values) != 1 || !strings.HasPrefix(vs.Names[0].Name, "coder") {
						continue
					}
					cl, ok := vs.Values[0].(*ast.CompositeLit)
					if !ok {
						continue
					}
					if t := src(cl.Type); t != "pointerCoderFuncs" && t != "valueCoderFuncs" {
						continue
					}
					cv := coderVar{name: vs.Names[0].Name, marshal: "Unclassified", unmarshal: "Unclassified"}
					for _, el := range cl.Elts {
						kv, ok := el.(*ast.KeyValueExpr)
						if !ok {
							continue
						}
						id, ok := kv.Value.(*ast.Ident)
						if !ok {
							continue
						}
						switch src(kv.Key) {
						case "marshal":
							cv.marshal = id.Name
						case "unmarshal":
							cv.unmarshal = id.Name
						}
					}
					coders = append(coders, cv)
				}
			}
		}
	}
	for _, fn := range []string{"fieldCoder", "encoderFuncsForValue"} {
		if !seenFn[fn] {
			rows = append(rows, row{fn: fn, cls: "Unclassified", kind: "Any", gotype: "Unclassified", enforce: "None", presence: "None", coder: "Unclassified", note: "function not found"})
		}
	}
	sort.Slice(coders, func(i, j int) bool { return coders[i].name < coders[j].name })

	var sb strings.Builder
	sb.WriteString("(* GENERATED by srcmodel_codertable from internal/impl/codec_tables.go (and the coder variables /\n   functions of package internal/impl) -- do not edit *)\n")
	sb.WriteString("From Coq Require Import List String.\nImport ListNotations.\nOpen Scope string_scope.\n\n")
	sb.WriteString("Record row := { r_fn : string; r_cls : string; r_kind : string; r_gotype : string;\n                 r_enforce : option bool; r_presence : option bool; r_coder : string }.\n\n")
	sb.WriteString("(* source order; the first row whose conditions hold selects the coder *)\nDefinition table : list row := [\n")
	for i, r := range rows {
		sep := ";"
		if i == len(rows)-1 {
			sep = ""
		}
		note := ""
		if r.gotype == "Unclassified" || r.coder == "Unclassified" || r.cls == "Unclassified" || r.kind == "Unclassified" {
			note = "  (* " + strings.ReplaceAll(strings.ReplaceAll(r.note, "(*", "( *"), "*)", "* )") + " *)"
		}
		fmt.Fprintf(&sb, "  {| r_fn := %s; r_cls := %s; r_kind := %s; r_gotype := %s; r_enforce := %s; r_presence := %s; r_coder := %s |}%s%s\n",
			q(r.fn), q(r.cls), q(r.kind), q(r.gotype), r.enforce, r.presence, q(r.coder), sep, note)
	}
	sb.WriteString("].\n\n")
	sb.WriteString("(* coder variable, its marshal function and whether that function calls utf8.Valid/ValidString,\n   its unmarshal function and the same *)\n")
	sb.WriteString("Definition coder_funcs : list (string * (string * bool) * (string * bool)) := [\n")
	for i, c := range coders {
		sep := ";"
		if i == len(coders)-1 {
			sep = ""
		}
		mv, uv := false, false
		if f := funcs[c.marshal]; f != nil {
			mv = callsUTF8Valid(f)
		}
		if f := funcs[c.unmarshal]; f != nil {
			uv = callsUTF8Valid(f)
		}
		fmt.Fprintf(&sb, "  (%s, (%s, %v), (%s, %v))%s\n", q(c.name), q(c.marshal), mv, q(c.unmarshal), uv, sep)
	}
	sb.WriteString("].\n")
	tmp, err := os.MkdirTemp("", "codertable")
	if err != nil {
		fail("%v", err)
	}
	out := filepath.Join(tmp, "CoderTable.v")
	if err := os.WriteFile(out, []byte(sb.String()), 0o644); err != nil {
		fail("%v", err)
	}
	fmt.Println("WRITE " + out)
}
