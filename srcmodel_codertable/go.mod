module verif/srcmodel_codertable

go 1.23
