// Command srcmodel derives Coq (Gallina) definitions from the Go sources of
// the repository under verification (Tier T of the framework).
//
// Usage: srcmodel <extractor> <repo>
//
// Every extractor writes its generated files to a fresh temporary directory
// and prints one line "WRITE <path>" per file on stdout; the basename of the
// path is the name of the file under coq/theories/Gen/.  Diagnostics go to
// stderr.
//
// Exit status: 0 everything expected was translated; 3 the files were written
// but a function that is expected to be translatable left the translatable
// subset (it is emitted as "unsupported", so every proof about it fails);
// 2 usage error / unknown extractor; 1 internal error (nothing written).
package main

import (
	"errors"
	"fmt"
	"os"
	"path/filepath"
	"sort"
	"time"
)

// errIncomplete is returned by an extractor that wrote its output although a
// function of its "expected translatable" list became Unsupported.
var errIncomplete = errors.New("expected-translatable function is unsupported")

// extractors maps the extractor name given on the command line to its
// implementation.  Add further extractors here.
var extractors = map[string]func(repo string) error{
	"strs": extractStrs,
}

func main() {
	if len(os.Args) != 3 {
		usage()
		os.Exit(2)
	}
	ex, ok := extractors[os.Args[1]]
	if !ok {
		fmt.Fprintf(os.Stderr, "srcmodel: unknown extractor %q\n", os.Args[1])
		usage()
		os.Exit(2)
	}
	repo, err := filepath.Abs(os.Args[2])
	if err != nil {
		fmt.Fprintf(os.Stderr, "srcmodel: %v\n", err)
		os.Exit(1)
	}
	switch err := ex(repo); {
	case err == nil:
	case errors.Is(err, errIncomplete):
		fmt.Fprintf(os.Stderr, "srcmodel: %s: %v\n", os.Args[1], err)
		os.Exit(3)
	default:
		fmt.Fprintf(os.Stderr, "srcmodel: %s: %v\n", os.Args[1], err)
		os.Exit(1)
	}
}

func usage() {
	var names []string
	for n := range extractors {
		names = append(names, n)
	}
	sort.Strings(names)
	fmt.Fprintf(os.Stderr, "usage: srcmodel <extractor> <repo>\nextractors: %v\n", names)
}

// writeGenerated writes content as <fresh temp dir>/<base> and announces it on
// stdout in the form bin/check expects.
func writeGenerated(base, content string) error {
	sweepOldTemp()
	dir, err := os.MkdirTemp("", "srcmodel-strs-")
	if err != nil {
		return err
	}
	path := filepath.Join(dir, base)
	if err := os.WriteFile(path, []byte(content), 0o644); err != nil {
		return err
	}
	fmt.Printf("WRITE %s\n", path)
	return nil
}

// sweepOldTemp removes output directories of earlier runs (bin/check has copied
// them long ago); only directories older than ten minutes are touched so that
// concurrent checks do not lose their files.
func sweepOldTemp() {
	old, _ := filepath.Glob(filepath.Join(os.TempDir(), "srcmodel-strs-*"))
	for _, d := range old {
		if st, err := os.Stat(d); err == nil && st.IsDir() && time.Since(st.ModTime()) > 10*time.Minute {
			os.RemoveAll(d)
		}
	}
}
