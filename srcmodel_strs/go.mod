module srcmodel_strs

go 1.23
