package main

import (
	"fmt"
	"os"
	"path/filepath"
	"strings"
)

// strsExpected lists the functions of internal/strs/strings.go (Coq name
// without the "go_" prefix) that the proofs of CodeGen/StrsGoP.v rely on.
// When one of them is no longer translatable the extractor still writes its
// output (the function becomes a value of type Unsupported, so the proofs
// about it do not compile) and exits with status 3.
var strsExpected = []string{
	"isASCIILower", "isASCIIUpper", "isASCIIDigit",
	"GoCamelCase", "JSONCamelCase", "JSONSnakeCase", "TrimEnumPrefix",
}

// extractStrs generates Gen/StrsGo.v from internal/strs/strings.go.
func extractStrs(repo string) error {
	return extractGoFile(repo, "internal/strs/strings.go", "StrsGo.v", strsExpected)
}

// extractGoFile translates one Go source file of the repository (path
// relative to the repository root, slash separated) into one generated Coq
// file and checks the expected-translatable list.
func extractGoFile(repo, rel, target string, expected []string) error {
	u, err := TranslateFile(filepath.Join(repo, filepath.FromSlash(rel)))
	if err != nil {
		return err
	}
	for _, n := range u.Notes {
		fmt.Fprintf(os.Stderr, "srcmodel_strs: note: %s\n", n)
	}
	if err := writeGenerated(target, u.Render(rel)); err != nil {
		return err
	}
	byName := map[string]*FuncDef{}
	for _, f := range u.Funcs {
		byName[f.Name] = f
		if f.Unsupported != "" {
			fmt.Fprintf(os.Stderr, "srcmodel_strs: %s: %s is unsupported: %s\n", rel, f.CoqName, f.Unsupported)
		}
	}
	var missing []string
	for _, n := range expected {
		switch f := byName[n]; {
		case f == nil:
			fmt.Fprintf(os.Stderr, "srcmodel_strs: %s: expected function %s not found\n", rel, n)
			missing = append(missing, n)
		case f.Unsupported != "":
			missing = append(missing, n)
		}
	}
	if len(missing) > 0 {
		return fmt.Errorf("%w: %s", errIncomplete, strings.Join(missing, " "))
	}
	return nil
}
