module srcmodel_known

go 1.23
