// Command srcmodel_known derives coq/theories/Gen/KnownGo.v from the well-known-type
// helpers of the repository under verification (Tier T for C43 / C23).
//
// Usage: srcmodel_known known <repo>
//
// The translator (translate.go, funcbody.go) is a copy of /verif/srcmodel's; this
// module adds a source-to-source step (extract_known.go) that turns the methods with
// pointer receivers of the generated *.pb.go files into first-order functions over the
// receiver's fields, so that the unchanged translator accepts them.
//
// Exit status: 0 ok; 3 files written but an expected function is unsupported;
// 2 usage; 1 internal error.
package main

import (
	"errors"
	"fmt"
	"os"
	"path/filepath"
)

var errIncomplete = errors.New("expected-translatable function is unsupported")

func main() {
	if len(os.Args) != 3 || os.Args[1] != "known" {
		fmt.Fprintln(os.Stderr, "usage: srcmodel_known known <repo>")
		os.Exit(2)
	}
	repo, err := filepath.Abs(os.Args[2])
	if err != nil {
		fmt.Fprintf(os.Stderr, "srcmodel_known: %v\n", err)
		os.Exit(1)
	}
	switch err := extractKnown(repo); {
	case err == nil:
	case errors.Is(err, errIncomplete):
		fmt.Fprintf(os.Stderr, "srcmodel_known: %v\n", err)
		os.Exit(3)
	default:
		fmt.Fprintf(os.Stderr, "srcmodel_known: %v\n", err)
		os.Exit(1)
	}
}

func writeGenerated(base, content string) error {
	dir, err := os.MkdirTemp("", "srcmodel-known-")
	if err != nil {
		return err
	}
	path := filepath.Join(dir, base)
	if err := os.WriteFile(path, []byte(content), 0o644); err != nil {
		return err
	}
	fmt.Printf("WRITE %s\n", path)
	return nil
}
