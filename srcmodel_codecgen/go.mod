module verif/srcmodel_codecgen

go 1.23
