// Command srcmodel_codecgen is a Tier T *table* extractor (stdlib only, go/parser): it reads
// internal/impl/codec_gen.go (generated from internal/cmd/generate-types/impl.go: for each scalar kind
// and each variant {plain, NoZero, Ptr, Slice, PackedSlice, Value, SliceValue, PackedSliceValue} the
// functions size*/append*/consume* and the coder* variables binding them) and emits
// coq/theories/Gen/CodecGenTable.v with
//
//   - funcs: one row per size/append/consume function.  The body (and signature) of the function is
//     matched as a whole against the template of its (role, variant) -- the statement skeleton of the
//     generator's template with holes for the expressions that differ between kinds.  A row records
//     what filled the holes, as source text: the pointer accessor, the wire type constant of the
//     `wtyp != protowire.XType` check, the protowire function (Append*/Size*/Consume*), the
//     value->wire conversion expression (append and size), the wire->value conversion expression
//     (consume), the NoZero test, whether the varint is read by the standard inlined fast path, whether
//     the packed branch / packed length computation is present and uses the same expressions.
//     A function whose body does not match its template as a whole becomes a row with
//     r_tpl = "Unclassified" (the theorems then fail).
//   - coders: for every `var coderX = pointerCoderFuncs{...}` / `valueCoderFuncs{...}` of codec_gen.go
//     the size / marshal / unmarshal functions it binds.
//
// Usage: srcmodel_codecgen codecgen <repo>      prints "WRITE <tmpfile>"
package main

import (
	"bytes"
	"fmt"
	"go/ast"
	"go/parser"
	"go/printer"
	"go/token"
	"os"
	"path/filepath"
	"regexp"
	"sort"
	"strings"
)

func fail(format string, a ...any) {
	fmt.Fprintf(os.Stderr, "codecgen: "+format+"\n", a...)
	os.Exit(1)
}

var fset = token.NewFileSet()

func src(n ast.Node) string {
	var b bytes.Buffer
	printer.Fprint(&b, fset, n)
	return strings.Join(strings.Fields(b.String()), " ")
}

var kinds = []string{"Bool", "Enum", "Int32", "Sint32", "Uint32", "Int64", "Sint64", "Uint64",
	"Sfixed32", "Fixed32", "Float", "Sfixed64", "Fixed64", "Double", "String", "Bytes"}
var variants = []string{"PackedSliceValue", "SliceValue", "Value", "PackedSlice", "Slice", "NoZero", "Ptr", ""}

// the inlined varint fast path of the generator's "Consume" template
const varintBlock = `var v uint64 var n int if len(b) >= 1 && b[0] < 0x80 { v = uint64(b[0]) n = 1 } else if len(b) >= 2 && b[1] < 128 { v = uint64(b[0]&0x7f) + uint64(b[1])<<7 n = 2 } else { v, n = protowire.ConsumeVarint(b) }`

var holeRe = regexp.MustCompile(`«(\w+)»`)

func holePattern(name string) string {
	base := strings.TrimRight(name, "0123456789")
	switch base {
	case "PM", "WT", "WF", "GT", "S":
		return `\w*`
	case "CONSUME":
		return regexp.QuoteMeta(varintBlock) + `|v, n := protowire\.Consume\w+\(b\)`
	}
	return `.+?`
}

// tpl compiles a template (literal, whitespace-normalised Go text with «HOLE»s) into an anchored regexp.
func tpl(t string) *regexp.Regexp {
	t = strings.Join(strings.Fields(t), " ")
	var sb strings.Builder
	sb.WriteString("^")
	last := 0
	for _, m := range holeRe.FindAllStringSubmatchIndex(t, -1) {
		sb.WriteString(regexp.QuoteMeta(t[last:m[0]]))
		name := t[m[2]:m[3]]
		fmt.Fprintf(&sb, "(?P<%s>%s)", name, holePattern(name))
		last = m[1]
	}
	sb.WriteString(regexp.QuoteMeta(t[last:]))
	sb.WriteString("$")
	return regexp.MustCompile(sb.String())
}

const (
	sigSizeP     = `func(p pointer, f *coderFieldInfo, opts marshalOptions) (size int)`
	sigAppendP   = `func(b []byte, p pointer, f *coderFieldInfo, opts marshalOptions) ([]byte, error)`
	sigConsumeP  = `func(b []byte, p pointer, wtyp protowire.Type, f *coderFieldInfo, opts unmarshalOptions) (out unmarshalOutput, err error)`
	sigSizeV     = `func(v protoreflect.Value, tagsize int, opts marshalOptions) int`
	sigSizeLV    = `func(listv protoreflect.Value, tagsize int, opts marshalOptions) (size int)`
	sigAppendV   = `func(b []byte, v protoreflect.Value, wiretag uint64, opts marshalOptions) ([]byte, error)`
	sigAppendLV  = `func(b []byte, listv protoreflect.Value, wiretag uint64, opts marshalOptions) ([]byte, error)`
	sigConsumeV  = `func(b []byte, _ protoreflect.Value, _ protowire.Number, wtyp protowire.Type, opts unmarshalOptions) (_ protoreflect.Value, out unmarshalOutput, err error)`
	sigConsumeLV = `func(b []byte, listv protoreflect.Value, _ protowire.Number, wtyp protowire.Type, opts unmarshalOptions) (_ protoreflect.Value, out unmarshalOutput, err error)`
)

// candidate templates of one (role, variant, validate); the first that matches wins.
// name = form ("var" = size computed per element, "const" = constant element size; "packed"/"nopacked").
type cand struct{ form, sig, body string }

func candidates(role, variant string, validate bool) []cand {
	app := `b = protowire.Append«WF»(b, «CONV»)`
	valA := ""
	if validate {
		valA = ` if !utf8.Valid«S»(«VARG») { return b, errInvalidUTF8{} }`
	}
	E := "out"
	if strings.HasSuffix(variant, "Value") {
		E = "protoreflect.Value{}, out"
	}
	chk := `if wtyp != protowire.«WT»Type { return ` + E + `, errUnknown }`
	cons := `«CONSUME» if n < 0 { return ` + E + `, errDecode }`
	valC := ""
	if validate {
		valC = ` if !utf8.Valid(v) { return ` + E + `, errInvalidUTF8{} }`
	}
	switch role + "/" + variant {
	case "size/":
		return []cand{{"var", sigSizeP, `{ v := *p.«PM»() return f.tagsize + «SIZE» }`},
			{"const", sigSizeP, `{ return f.tagsize + «SIZE» }`}}
	case "size/NoZero":
		return []cand{{"var", sigSizeP, `{ v := *p.«PM»() if «ZERO» { return 0 } return f.tagsize + «SIZE» }`}}
	case "size/Ptr":
		return []cand{{"var", sigSizeP, `{ v := **p.«PM»Ptr() return f.tagsize + «SIZE» }`},
			{"const", sigSizeP, `{ return f.tagsize + «SIZE» }`}}
	case "size/Slice":
		return []cand{{"var", sigSizeP, `{ s := *p.«PM»Slice() for _, v := range s { size += f.tagsize + «SIZE» } return size }`},
			{"const", sigSizeP, `{ s := *p.«PM»Slice() size = len(s) * (f.tagsize + «SIZE») return size }`}}
	case "size/PackedSlice":
		return []cand{{"var", sigSizeP, `{ s := *p.«PM»Slice() if len(s) == 0 { return 0 } n := 0 for _, v := range s { n += «SIZE» } return f.tagsize + protowire.SizeBytes(n) }`},
			{"const", sigSizeP, `{ s := *p.«PM»Slice() if len(s) == 0 { return 0 } n := len(s) * «SIZE» return f.tagsize + protowire.SizeBytes(n) }`}}
	case "size/Value":
		return []cand{{"var", sigSizeV, `{ return tagsize + «SIZE» }`}}
	case "size/SliceValue":
		return []cand{{"var", sigSizeLV, `{ list := listv.List() for i, llen := 0, list.Len(); i < llen; i++ { v := list.Get(i) size += tagsize + «SIZE» } return size }`},
			{"const", sigSizeLV, `{ list := listv.List() size = list.Len() * (tagsize + «SIZE») return size }`}}
	case "size/PackedSliceValue":
		return []cand{{"var", sigSizeLV, `{ list := listv.List() llen := list.Len() if llen == 0 { return 0 } n := 0 for i, llen := 0, llen; i < llen; i++ { v := list.Get(i) n += «SIZE» } return tagsize + protowire.SizeBytes(n) }`},
			{"const", sigSizeLV, `{ list := listv.List() llen := list.Len() if llen == 0 { return 0 } n := llen * «SIZE» return tagsize + protowire.SizeBytes(n) }`}}

	case "append/":
		return []cand{{"var", sigAppendP, `{ v := *p.«PM»() b = protowire.AppendVarint(b, f.wiretag) ` + app + valA + ` return b, nil }`}}
	case "append/NoZero":
		return []cand{{"var", sigAppendP, `{ v := *p.«PM»() if «ZERO» { return b, nil } b = protowire.AppendVarint(b, f.wiretag) ` + app + valA + ` return b, nil }`}}
	case "append/Ptr":
		return []cand{{"var", sigAppendP, `{ v := **p.«PM»Ptr() b = protowire.AppendVarint(b, f.wiretag) ` + app + valA + ` return b, nil }`}}
	case "append/Slice":
		return []cand{{"var", sigAppendP, `{ s := *p.«PM»Slice() for _, v := range s { b = protowire.AppendVarint(b, f.wiretag) ` + app + valA + ` } return b, nil }`}}
	case "append/PackedSlice":
		return []cand{{"var", sigAppendP, `{ s := *p.«PM»Slice() if len(s) == 0 { return b, nil } b = protowire.AppendVarint(b, f.wiretag) n := 0 for _, v := range s { n += «SIZE» } b = protowire.AppendVarint(b, uint64(n)) for _, v := range s { ` + app + ` } return b, nil }`},
			{"const", sigAppendP, `{ s := *p.«PM»Slice() if len(s) == 0 { return b, nil } b = protowire.AppendVarint(b, f.wiretag) n := len(s) * «SIZE» b = protowire.AppendVarint(b, uint64(n)) for _, v := range s { ` + app + ` } return b, nil }`}}
	case "append/Value":
		return []cand{{"var", sigAppendV, `{ b = protowire.AppendVarint(b, wiretag) ` + app + valA + ` return b, nil }`}}
	case "append/SliceValue":
		return []cand{{"var", sigAppendLV, `{ list := listv.List() for i, llen := 0, list.Len(); i < llen; i++ { v := list.Get(i) b = protowire.AppendVarint(b, wiretag) ` + app + ` } return b, nil }`}}
	case "append/PackedSliceValue":
		return []cand{{"var", sigAppendLV, `{ list := listv.List() llen := list.Len() if llen == 0 { return b, nil } b = protowire.AppendVarint(b, wiretag) n := 0 for i := 0; i < llen; i++ { v := list.Get(i) n += «SIZE» } b = protowire.AppendVarint(b, uint64(n)) for i := 0; i < llen; i++ { v := list.Get(i) ` + app + ` } return b, nil }`},
			{"const", sigAppendLV, `{ list := listv.List() llen := list.Len() if llen == 0 { return b, nil } b = protowire.AppendVarint(b, wiretag) n := llen * «SIZE» b = protowire.AppendVarint(b, uint64(n)) for i := 0; i < llen; i++ { v := list.Get(i) ` + app + ` } return b, nil }`}}

	case "consume/", "consume/NoZero":
		return []cand{{"nopacked", sigConsumeP, `{ ` + chk + ` ` + cons + valC + ` *p.«PM»() = «DEC» out.n = n return out, nil }`}}
	case "consume/Ptr":
		return []cand{{"nopacked", sigConsumeP, `{ ` + chk + ` ` + cons + valC + ` vp := p.«PM»Ptr() if *vp == nil { *vp = new(«GT») } **vp = «DEC» out.n = n return out, nil }`}}
	case "consume/Slice":
		if validate {
			return []cand{{"nopacked", sigConsumeP, `{ ` + chk + ` ` + cons + valC + ` sp := p.«PM»Slice() *sp = append(*sp, «DEC») out.n = n return out, nil }`}}
		}
		tail := chk + ` ` + cons + ` *sp = append(*sp, «DEC») out.n = n return out, nil }`
		pk := func(count string) string {
			return `if wtyp == protowire.BytesType { b, n := protowire.ConsumeBytes(b) if n < 0 { return out, errDecode } ` + count +
				` if count > 0 { p.grow«PM2»Slice(count) } s := *sp for len(b) > 0 { «CONSUME2» if n < 0 { return out, errDecode } s = append(s, «DEC2») b = b[n:] } *sp = s out.n = n return out, nil } `
		}
		return []cand{
			{"packed-var", sigConsumeP, `{ sp := p.«PM»Slice() ` + pk(`count := 0 for _, v := range b { if v < 0x80 { count++ } }`) + tail},
			{"packed-const", sigConsumeP, `{ sp := p.«PM»Slice() ` + pk(`count := len(b) / «SIZE»`) + tail},
			{"nopacked", sigConsumeP, `{ sp := p.«PM»Slice() ` + tail}}
	case "consume/Value":
		return []cand{{"nopacked", sigConsumeV, `{ ` + chk + ` ` + cons + valC + ` out.n = n return «DEC», out, nil }`}}
	case "consume/SliceValue":
		tail := chk + ` ` + cons + ` list.Append(«DEC») out.n = n return listv, out, nil }`
		pk := `if wtyp == protowire.BytesType { b, n := protowire.ConsumeBytes(b) if n < 0 { return protoreflect.Value{}, out, errDecode } for len(b) > 0 { «CONSUME2» if n < 0 { return protoreflect.Value{}, out, errDecode } list.Append(«DEC2») b = b[n:] } out.n = n return listv, out, nil } `
		return []cand{{"packed", sigConsumeLV, `{ list := listv.List() ` + pk + tail},
			{"nopacked", sigConsumeLV, `{ list := listv.List() ` + tail}}
	}
	return nil
}

type row struct {
	fn, role, kind, variant string
	validate                bool
	tpl                     string // matched template form, or "Unclassified"
	pm                      string // pointer accessor (Int32, ...), "" for the Value variants
	wt                      string // consume: X of `wtyp != protowire.XType`
	wf                      string // protowire function suffix: Append<wf> / Size<wf> / Consume<wf>
	conv                    string // append/size: value -> wire expression ("" for the constant sizes)
	dec                     string // consume: wire -> value expression
	zero                    string // NoZero test
	fast                    bool   // consume: varint read by the standard inlined fast path
	same                    bool   // packed/slice: the repeated holes agree (see checkSame)
	note                    string
}

var sizeRe = regexp.MustCompile(`^protowire\.Size(\w+)\((.*)\)$`)
var lenRe = regexp.MustCompile(`^len\((.*)\)$`)
var consumeRe = regexp.MustCompile(`^v, n := protowire\.Consume(\w+)\(b\)$`)

// splitSize: `protowire.SizeVarint(e)` -> (Varint, e); `protowire.SizeFixed32()` -> (Fixed32, "");
// `protowire.SizeBytes(len(e))` -> (Bytes, e)
func splitSize(s string) (wf, conv string, ok bool) {
	m := sizeRe.FindStringSubmatch(s)
	if m == nil {
		return "", "", false
	}
	wf, conv = m[1], canon(m[2])
	if wf == "Bytes" {
		l := lenRe.FindStringSubmatch(conv)
		if l == nil {
			return "", "", false
		}
		conv = l[1]
	}
	return wf, conv, true
}

func consumeClass(s string) (wf string, fast bool, ok bool) {
	if s == varintBlock {
		return "Varint", true, true
	}
	if m := consumeRe.FindStringSubmatch(s); m != nil {
		return m[1], false, true
	}
	return "", false, false
}

func classify(fd *ast.FuncDecl) row {
	name := fd.Name.Name
	r := row{fn: name, tpl: "Unclassified", same: true}
	rest := ""
	for _, role := range []string{"size", "append", "consume"} {
		if strings.HasPrefix(name, role) {
			r.role, rest = role, strings.TrimPrefix(name, role)
		}
	}
	if strings.HasSuffix(rest, "ValidateUTF8") {
		r.validate, rest = true, strings.TrimSuffix(rest, "ValidateUTF8")
	}
	for _, k := range kinds {
		if strings.HasPrefix(rest, k) && len(k) > len(r.kind) {
			r.kind = k
		}
	}
	if r.kind == "" {
		r.kind, r.variant, r.note = "Unclassified", "Unclassified", "name"
		return r
	}
	r.variant = "Unclassified"
	for _, v := range variants {
		if strings.TrimPrefix(rest, r.kind) == v {
			r.variant = v
		}
	}
	if r.variant == "Unclassified" {
		r.note = "name"
		return r
	}
	sig, body := src(fd.Type), src(fd.Body)
	for _, c := range candidates(r.role, r.variant, r.validate) {
		if sig != c.sig {
			continue
		}
		re := tpl(c.body)
		m := re.FindStringSubmatch(body)
		if m == nil {
			continue
		}
		h := map[string]string{}
		for i, n := range re.SubexpNames() {
			if n != "" {
				h[n] = m[i]
			}
		}
		r.tpl = c.form
		for _, k := range []string{"ZERO", "DEC", "DEC2", "CONV"} {
			if v, ok := h[k]; ok {
				h[k] = canon(v)
			}
		}
		r.pm, r.wt, r.zero, r.dec = h["PM"], h["WT"], h["ZERO"], h["DEC"]
		bad := func(why string) row { r.tpl, r.note = "Unclassified", why; return r }
		switch r.role {
		case "size":
			wf, conv, ok := splitSize(h["SIZE"])
			if !ok {
				return bad("size expression: " + h["SIZE"])
			}
			r.wf, r.conv = wf, conv
		case "append":
			r.wf, r.conv = h["WF"], h["CONV"]
			if s, present := h["SIZE"]; present { // packed: the length is computed with this size expression
				wf, conv, ok := splitSize(s)
				if !ok {
					return bad("packed size expression: " + s)
				}
				// same protowire function family and the same conversion as the bytes appended
				r.same = (wf == r.wf) && (conv == r.conv || (conv == "" && (wf == "Fixed32" || wf == "Fixed64")))
			}
			if r.validate { // utf8.Valid[String] applied to the value that was appended
				want := "v"
				if r.variant == "Value" {
					want = r.conv
				}
				if h["VARG"] != want {
					return bad("validated expression: " + h["VARG"])
				}
			}
		case "consume":
			wf, fast, ok := consumeClass(h["CONSUME"])
			if !ok {
				return bad("consume: " + h["CONSUME"])
			}
			r.wf, r.fast = wf, fast
			if c2, present := h["CONSUME2"]; present { // packed branch: same reader, same conversion, same accessor
				r.same = c2 == h["CONSUME"] && h["DEC2"] == r.dec
				if pm2, p := h["PM2"]; p && pm2 != r.pm {
					r.same = false
				}
				if s, p := h["SIZE"]; p { // count := len(b) / protowire.SizeFixedNN()
					swf, sconv, ok := splitSize(s)
					if !ok || swf != wf || sconv != "" {
						r.same = false
					}
				}
			}
			if gt, p := h["GT"]; p && strings.ToLower(r.pm) != gt && !(r.pm == "Bytes" && gt == "[]byte") {
				return bad("new(" + gt + ") for accessor " + r.pm)
			}
		}
		return r
	}
	r.note = "body does not match the template of " + r.role + "/" + r.variant
	return r
}

// canon re-prints an expression on its own, so that gofmt's depth-dependent spacing (`v&x` inside a call
// argument, `v & x` at statement level) does not distinguish equal expressions.
func canon(s string) string {
	if s == "" {
		return s
	}
	e, err := parser.ParseExpr(s)
	if err != nil {
		return s
	}
	var b bytes.Buffer
	printer.Fprint(&b, token.NewFileSet(), e)
	return strings.Join(strings.Fields(b.String()), " ")
}

func q(s string) string { return `"` + strings.ReplaceAll(s, `"`, `""`) + `"` }

func main() {
	if len(os.Args) != 3 || os.Args[1] != "codecgen" {
		fail("usage: srcmodel_codecgen codecgen <repo>")
	}
	path := filepath.Join(os.Args[2], "internal", "impl", "codec_gen.go")
	f, err := parser.ParseFile(fset, path, nil, 0)
	if err != nil {
		fail("%v", err)
	}
	var rows []row
	type coderVar struct{ name, typ, size, marshal, unmarshal string }
	var coders []coderVar
	for _, d := range f.Decls {
		switch x := d.(type) {
		case *ast.FuncDecl:
			n := x.Name.Name
			if x.Recv == nil && (strings.HasPrefix(n, "size") || strings.HasPrefix(n, "append") || strings.HasPrefix(n, "consume")) {
				rows = append(rows, classify(x))
			}
		case *ast.GenDecl:
			if x.Tok != token.VAR {
				continue
			}
			for _, sp := range x.Specs {
				vs := sp.(*ast.ValueSpec)
				if len(vs.Names) != 1 || len(vs.Values) != 1 || !strings.HasPrefix(vs.Names[0].Name, "coder") {
					continue
				}
				cl, ok := vs.Values[0].(*ast.CompositeLit)
				if !ok {
					continue
				}
				cv := coderVar{name: vs.Names[0].Name, typ: src(cl.Type), size: "Unclassified", marshal: "Unclassified", unmarshal: "Unclassified"}
				for _, el := range cl.Elts {
					kv, ok := el.(*ast.KeyValueExpr)
					if !ok {
						continue
					}
					id, ok := kv.Value.(*ast.Ident)
					if !ok {
						continue
					}
					switch src(kv.Key) {
					case "size":
						cv.size = id.Name
					case "marshal":
						cv.marshal = id.Name
					case "unmarshal":
						cv.unmarshal = id.Name
					}
				}
				coders = append(coders, cv)
			}
		}
	}
	sort.SliceStable(rows, func(i, j int) bool { return rows[i].fn < rows[j].fn })
	sort.SliceStable(coders, func(i, j int) bool { return coders[i].name < coders[j].name })

	var sb strings.Builder
	sb.WriteString("(* GENERATED by srcmodel_codecgen from internal/impl/codec_gen.go -- do not edit *)\n")
	sb.WriteString("From Coq Require Import List String.\nImport ListNotations.\nOpen Scope string_scope.\n\n")
	sb.WriteString("(* one size/append/consume function: which template its whole body matched (\"Unclassified\" = none)\n   and the source text that filled the template's holes *)\n")
	sb.WriteString("Record row := { r_fn : string; r_role : string; r_kind : string; r_variant : string; r_validate : bool;\n                r_tpl : string; r_pm : string; r_wt : string; r_wf : string; r_conv : string; r_dec : string;\n                r_zero : string; r_fast : bool; r_same : bool }.\n\n")
	sb.WriteString("Definition funcs : list row := [\n")
	for i, r := range rows {
		sep := ";"
		if i == len(rows)-1 {
			sep = ""
		}
		note := ""
		if r.tpl == "Unclassified" {
			note = "  (* " + strings.ReplaceAll(strings.ReplaceAll(r.note, "(*", "( *"), "*)", "* )") + " *)"
		}
		fmt.Fprintf(&sb, "  {| r_fn := %s; r_role := %s; r_kind := %s; r_variant := %s; r_validate := %v; r_tpl := %s; r_pm := %s; r_wt := %s; r_wf := %s; r_conv := %s; r_dec := %s; r_zero := %s; r_fast := %v; r_same := %v |}%s%s\n",
			q(r.fn), q(r.role), q(r.kind), q(r.variant), r.validate, q(r.tpl), q(r.pm), q(r.wt), q(r.wf), q(r.conv), q(r.dec), q(r.zero), r.fast, r.same, sep, note)
	}
	sb.WriteString("].\n\n")
	sb.WriteString("(* coder variable, its struct type, and the size / marshal / unmarshal functions it binds *)\n")
	sb.WriteString("Definition coders : list (string * string * (string * string * string)) := [\n")
	for i, c := range coders {
		sep := ";"
		if i == len(coders)-1 {
			sep = ""
		}
		fmt.Fprintf(&sb, "  (%s, %s, (%s, %s, %s))%s\n", q(c.name), q(c.typ), q(c.size), q(c.marshal), q(c.unmarshal), sep)
	}
	sb.WriteString("].\n")
	tmp, err := os.MkdirTemp("", "codecgen")
	if err != nil {
		fail("%v", err)
	}
	out := filepath.Join(tmp, "CodecGenTable.v")
	if err := os.WriteFile(out, []byte(sb.String()), 0o644); err != nil {
		fail("%v", err)
	}
	fmt.Println("WRITE " + out)
}
