(* Model driver.  Reads harness lines
     C <fam> <op> <in...> | <obs...>
   (tab separated), runs the extracted Coq model of family <fam> on <in...>,
   and prints every line whose model observation differs from the
   implementation's observation:  M <fam> <op> <in...> | <impl obs> || <model obs>
   Ends with "STATS cases=<n> mismatches=<m> errors=<e>".
   With argument "eval" it prints the model observation for every line instead. *)
let split_on_bar toks =
  let rec go acc = function
    | [] -> (Stdlib.List.rev acc, [])
    | "|" :: r -> (Stdlib.List.rev acc, r)
    | t :: r -> go (t :: acc) r in
  go [] toks

let () =
  let eval_mode = Array.length Sys.argv > 1 && Sys.argv.(1) = "eval" in
  let cases = ref 0 and mism = ref 0 and errs = ref 0 in
  (try
    while true do
      let line = input_line stdin in
      if String.length line > 2 && line.[0] = 'C' && line.[1] = '\t' then begin
        incr cases;
        match String.split_on_char '\t' line with
        | _ :: fam :: op :: rest ->
          let (ins, obs) = split_on_bar rest in
          (match Hashtbl.find_opt Util.handlers fam with
           | None -> incr errs; Printf.printf "E\tno handler for family %s\n" fam
           | Some h ->
             (try
               let m = h op ins in
               if eval_mode then Printf.printf "V\t%s\t%s\t%s\t|\t%s\n" fam op (String.concat "\t" ins) (String.concat "\t" m)
               else if m <> obs then begin
                 incr mism;
                 Printf.printf "M\t%s\t%s\t%s\t|\t%s\t||\t%s\n" fam op (String.concat "\t" ins)
                   (String.concat "\t" obs) (String.concat "\t" m)
               end
             with ex -> incr errs; Printf.printf "E\t%s\t%s\t%s\t%s\n" fam op (String.concat "\t" ins) (Printexc.to_string ex)))
        | _ -> incr errs; Printf.printf "E\tmalformed line\n"
      end
    done
  with End_of_file -> ());
  Printf.printf "STATS cases=%d mismatches=%d errors=%d\n" !cases !mism !errs
