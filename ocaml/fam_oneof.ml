(* family "oneof": oneof members are mutually exclusive (C12).  Model: coq/theories/Msg/OneofModel.v.
   Observation tokens must be produced exactly as harness/cmd/h/fam_oneof.go prints them. *)
open Util
open OneofModel

let oneof_tail s k = String.sub s k (String.length s - k)
let oneof_opt_of = function "-" -> None | s -> Some (n_of_hex s)
let oneof_tok_of_opt = function None -> "-" | Some n -> hex_of_n n

let oneof_val_of (tok : string) : oval =
  match tok.[0] with
  | 's' -> OVScalar (n_of_hex (oneof_tail tok 1))
  | 'x' -> OVBytes (bytes_of_hex tok)
  | 'm' -> (match String.split_on_char ',' (oneof_tail tok 1) with
            | [a; b] -> OVMsg (oneof_opt_of a, oneof_opt_of b)
            | _ -> failwith ("oneof: bad message value " ^ tok))
  | _ -> failwith ("oneof: bad value " ^ tok)
let oneof_tok_of_val = function
  | OVScalar n -> "s" ^ hex_of_n n
  | OVBytes b -> hex_of_bytes b
  | OVMsg (a, b) -> "m" ^ oneof_tok_of_opt a ^ "," ^ oneof_tok_of_opt b

(* "<num>=<val>" *)
let oneof_numval (s : string) : BinNums.coq_N * oval =
  let eq = String.index s '=' in
  (n_of_hex (String.sub s 0 eq), oneof_val_of (oneof_tail s (eq + 1)))

let oneof_members_of (s : string) : BinNums.coq_N list =
  Stdlib.List.map (fun t -> n_of_hex (String.sub t 0 (String.length t - 1))) (String.split_on_char ',' s)

let oneof_op_of (tok : string) : oop =
  match tok.[0] with
  | 'S' -> let (m, v) = oneof_numval (oneof_tail tok 1) in OSet (m, v)
  | 'C' -> OClear (n_of_hex (oneof_tail tok 1))
  | 'M' -> OMutable (n_of_hex (oneof_tail tok 1))
  | 'Z' -> OClearOneof
  | 'N' -> OSetNilMsg (n_of_hex (oneof_tail tok 1))
  | 'T' -> OSetTypedNil (n_of_hex (oneof_tail tok 1))
  | 'G' -> if tok = "G-" then OMerge None else OMerge (Some (oneof_numval (oneof_tail tok 1)))
  | 'W' -> let (m, v) = oneof_numval (oneof_tail tok 1) in OWire (m, v)
  | _ -> failwith ("oneof: bad op " ^ tok)

let oneof_bits f members = String.concat "" (Stdlib.List.map (fun m -> tok_of_bool (f m)) members)
let oneof_digest = function None -> "-" | Some (m, v) -> hex_of_n m ^ "=" ^ oneof_tok_of_val v

(* run ops on the representation named by repr; returns (observation after each op, final digest) *)
let oneof_run repr members ops =
  match repr with
  | "wrap" | "wrapg" ->
      let w = ref WNil in
      let obs = Stdlib.List.map (fun o ->
        w := wstep !w o;
        let base = "w" ^ (match wwhich !w with Some m -> hex_of_n m | None -> "0") ^ "h" ^ oneof_bits (whas !w) members in
        if repr = "wrapg" then base ^ "g" ^ hex_of_n (gcase !w) ^ "k" ^ oneof_bits (ghas !w) members else base) ops in
      (* the representation must refine the abstract state *)
      if wabs !w <> arun None ops then failwith "oneof: wrapper does not refine the abstract state";
      (obs, oneof_digest (wabs !w))
  | "dyn" ->
      let k = ref kempty in
      let obs = Stdlib.List.map (fun o ->
        k := dstep members !k o;
        "w" ^ (match dwhich members !k with Some m -> hex_of_n m | None -> "0") ^ "h" ^ oneof_bits (dhas !k) members) ops in
      if dabs members !k <> arun None ops then failwith "oneof: dynamic map does not refine the abstract state";
      (obs, oneof_digest (dabs members !k))
  | _ -> failwith ("oneof: bad repr " ^ repr)

let oneof_ev_of (tok : string) : tev =
  match String.split_on_char ':' tok with
  | [num; oi; skip] -> { te_num = n_of_hex num; te_oneof = oneof_opt_of oi; te_null = bool_of_tok skip }
  | _ -> failwith ("oneof: bad event " ^ tok)

let oneof_res = function
  | TErr EDuplicate -> ["e_dup"]
  | TErr EOneofSet -> ["e_oneof"]
  | TOk applied ->
      let ints = Stdlib.List.sort compare (Stdlib.List.map int_of_n applied) in
      ["ok:" ^ String.concat "," (Stdlib.List.map (fun i -> Printf.sprintf "%x" i) ints)]

let handle op args =
  match op, args with
  | "ops", _ :: repr :: members :: ops ->
      let (obs, dig) = oneof_run repr (oneof_members_of members) (Stdlib.List.map oneof_op_of ops) in
      obs @ [dig]
  | "wire", _ :: repr :: members :: occ ->
      (* "u<num>": an occurrence with the wrong wire type (an unknown field), ignored *)
      let occ = Stdlib.List.filter (fun t -> t.[0] <> 'u') occ in
      let occ = Stdlib.List.map oneof_numval occ in
      let ops = Stdlib.List.map (fun (m, v) -> OWire (m, v)) occ in
      let (obs, dig) = oneof_run repr (oneof_members_of members) ops in
      if wire_decode None occ <> arun None ops then failwith "oneof: wire_decode differs from the op semantics";
      let last = match Stdlib.List.rev obs with o :: _ -> o | [] -> "w0h" ^ oneof_bits (fun _ -> false) (oneof_members_of members) ^ (if repr = "wrapg" then "g0k" ^ oneof_bits (fun _ -> false) (oneof_members_of members) else "") in
      [last; dig]
  | "json", _ :: evs -> oneof_res (json_decode (Stdlib.List.map oneof_ev_of evs))
  | "text", _ :: evs -> oneof_res (text_decode (Stdlib.List.map oneof_ev_of evs))
  | _ -> failwith ("oneof: unknown op " ^ op)

let () = register "oneof" handle
