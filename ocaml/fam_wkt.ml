(* family "wkt": structpb NewValue/AsInterface and anypb URL handling (C45).
   Token formats must agree with harness/cmd/h/fam_wkt.go. *)
open Util
open StructModel

(* hex-encoded bytes without the "x" prefix *)
let bytes_of_plainhex s = bytes_of_hex ("x" ^ s)
let plainhex_of_bytes bs = let h = hex_of_bytes bs in String.sub h 1 (String.length h - 1)

(* read up to the next ';' starting at !pos *)
let wkt_field s pos =
  let j = String.index_from s !pos ';' in
  let r = String.sub s !pos (j - !pos) in
  pos := j + 1; r

let rec wkt_parse_g s pos : gval =
  let c = s.[!pos] in
  incr pos;
  match c with
  | 'N' -> GNil
  | 'T' -> GBool true
  | 'F' -> GBool false
  | 'D' -> GNum (n_of_hex (wkt_field s pos))
  | 'S' -> GF32 (n_of_hex (wkt_field s pos))
  | 'I' -> GInt (z_of_hex (wkt_field s pos))
  | 's' -> GStr (bytes_of_plainhex (wkt_field s pos))
  | 'b' -> GBytes (bytes_of_plainhex (wkt_field s pos))
  | 'L' -> let n = int_of_string (wkt_field s pos) in
           let rec go i acc = if i = 0 then Stdlib.List.rev acc else (let x = wkt_parse_g s pos in go (i - 1) (x :: acc)) in
           GList (go n [])
  | 'M' -> let n = int_of_string (wkt_field s pos) in
           let rec go i acc = if i = 0 then Stdlib.List.rev acc else
             (let k = bytes_of_plainhex (wkt_field s pos) in let x = wkt_parse_g s pos in go (i - 1) ((k, x) :: acc)) in
           GMap (go n [])
  | 'X' -> GBad
  | _ -> failwith "wkt: bad gval token"

let rec wkt_parse_p s pos : pval =
  let c = s.[!pos] in
  incr pos;
  match c with
  | 'U' -> PUnset
  | 'N' -> PNull
  | 'T' -> PBool true
  | 'F' -> PBool false
  | 'D' -> PNumber (n_of_hex (wkt_field s pos))
  | 's' -> PString (bytes_of_plainhex (wkt_field s pos))
  | 'L' -> let n = int_of_string (wkt_field s pos) in
           let rec go i acc = if i = 0 then Stdlib.List.rev acc else (let x = wkt_parse_p s pos in go (i - 1) (x :: acc)) in
           PList (go n [])
  | 'M' -> let n = int_of_string (wkt_field s pos) in
           let rec go i acc = if i = 0 then Stdlib.List.rev acc else
             (let k = bytes_of_plainhex (wkt_field s pos) in let x = wkt_parse_p s pos in go (i - 1) ((k, x) :: acc)) in
           PStruct (go n [])
  | _ -> failwith "wkt: bad pval token"

let rec wkt_print_g b (v : gval) =
  match v with
  | GNil -> Buffer.add_char b 'N'
  | GBool true -> Buffer.add_char b 'T'
  | GBool false -> Buffer.add_char b 'F'
  | GNum n -> Buffer.add_string b ("D" ^ hex_of_n n ^ ";")
  | GF32 n -> Buffer.add_string b ("S" ^ hex_of_n n ^ ";")
  | GInt z -> Buffer.add_string b ("I" ^ hex_of_z z ^ ";")
  | GStr s -> Buffer.add_string b ("s" ^ plainhex_of_bytes s ^ ";")
  | GBytes s -> Buffer.add_string b ("b" ^ plainhex_of_bytes s ^ ";")
  | GList l -> Buffer.add_string b (Printf.sprintf "L%d;" (Stdlib.List.length l)); Stdlib.List.iter (wkt_print_g b) l
  | GMap m -> Buffer.add_string b (Printf.sprintf "M%d;" (Stdlib.List.length m));
              Stdlib.List.iter (fun (k, x) -> Buffer.add_string b (plainhex_of_bytes k ^ ";"); wkt_print_g b x) m
  | GBad -> Buffer.add_char b 'X'

let rec wkt_print_p b (v : pval) =
  match v with
  | PUnset -> Buffer.add_char b 'U'
  | PNull -> Buffer.add_char b 'N'
  | PBool true -> Buffer.add_char b 'T'
  | PBool false -> Buffer.add_char b 'F'
  | PNumber n -> Buffer.add_string b ("D" ^ hex_of_n n ^ ";")
  | PString s -> Buffer.add_string b ("s" ^ plainhex_of_bytes s ^ ";")
  | PList l -> Buffer.add_string b (Printf.sprintf "L%d;" (Stdlib.List.length l)); Stdlib.List.iter (wkt_print_p b) l
  | PStruct m -> Buffer.add_string b (Printf.sprintf "M%d;" (Stdlib.List.length m));
                 Stdlib.List.iter (fun (k, x) -> Buffer.add_string b (plainhex_of_bytes k ^ ";"); wkt_print_p b x) m

let g_to_string v = let b = Buffer.create 64 in wkt_print_g b v; Buffer.contents b
let p_to_string v = let b = Buffer.create 64 in wkt_print_p b v; Buffer.contents b

let handle op args =
  match op, args with
  | "newvalue", [g] ->
      let v = wkt_parse_g g (ref 0) in
      (match new_value v with
       | Some p ->
         (* cross-check of the model's own statements on this input (cheap, catches glue errors) *)
         if rejected v then failwith "wkt: model accepted a value it classifies as rejected";
         if g_to_string (as_interface p) <> g_to_string (norm v) then failwith "wkt: model violates new_value_as_interface";
         ["ok"; p_to_string p]
       | None ->
         if not (rejected v) then failwith "wkt: model rejected a value it classifies as accepted";
         ["err"])
  | "asiface", [p] -> [g_to_string (as_interface (wkt_parse_p p (ref 0)))]
  | "msgis", [u; n] -> [tok_of_bool (AnyModel.message_is (bytes_of_hex u) (bytes_of_hex n))]
  | "msgname", [u] -> [hex_of_bytes (AnyModel.message_name (bytes_of_hex u))]
  | "newurl", [n] -> [hex_of_bytes (AnyModel.any_new_url (bytes_of_hex n))]
  | "b64", [x] -> let x = bytes_of_hex x in
      let e = b64_encode x in
      (match b64_decode e with
       | Some y when y = x -> ()
       | _ -> failwith "wkt: model violates b64_decode_encode");
      [hex_of_bytes e]
  | "utf8", [x] -> [tok_of_bool (utf8_valid (bytes_of_hex x))]
  | "i2f", [z] -> [hex_of_n (z_to_f64 (z_of_hex z))]
  | "f2f", [n] -> [hex_of_n (f32_to_f64 (n_of_hex n))]
  | _ -> failwith ("wkt: unknown op " ^ op)

let () = register "wkt" handle
