(* family "conv": glue between harness/cmd/h/fam_conv_ast.go token streams and Desc/ConvertModel.v.
   Token grammar: see fam_conv_ast.go.  Trusted only for the correspondence check. *)
open Util
open ConvertModel

(* ---- token reader *)
type rd = { mutable toks : string list }
let next r = match r.toks with t :: rest -> r.toks <- rest; t | [] -> failwith "conv: out of tokens"
let expect r s = let t = next r in if t <> s then failwith ("conv: expected " ^ s ^ " got " ^ t)
let rd_bytes r = bytes_of_hex (next r)
let rd_optbytes r = let t = next r in if t = "-" then None else Some (bytes_of_hex t)
let rd_z r = z_of_hex (next r)
let rd_n r = n_of_hex (next r)
let rd_optz r = let t = next r in if t = "-" then None else Some (z_of_hex t)
let rd_optn r = let t = next r in if t = "-" then None else Some (n_of_hex t)
let rd_optbool r = match next r with "-" -> None | "1" -> Some true | "0" -> Some false | t -> failwith ("conv: optbool " ^ t)
let rd_bool r = bool_of_tok (next r)
let rd_count r = int_of_n (n_of_hex (next r))
let rd_list r f = let n = rd_count r in Stdlib.List.init n (fun _ -> ()) |> Stdlib.List.map (fun () -> f r)

let rd_feat r =
  match next r with
  | "-" -> None
  | "F" ->
    let a = rd_optn r in let b = rd_optn r in let c = rd_optn r in
    let d = rd_optn r in let e = rd_optn r in let f = rd_optn r in
    let rest = rd_bytes r in
    Some { fo_presence = a; fo_enum = b; fo_rep = c; fo_utf8 = d; fo_msgenc = e; fo_json = f; fo_rest = rest }
  | t -> failwith ("conv: feat " ^ t)

let rd_fieldopts r =
  match next r with
  | "-" -> None
  | "O" -> let p = rd_optbool r in let l = rd_optbool r in let f = rd_feat r in let rest = rd_bytes r in
    Some { o_packed = p; o_lazy = l; o_feat = f; o_rest = rest }
  | t -> failwith ("conv: fieldopts " ^ t)

let rd_msgopts r =
  match next r with
  | "-" -> None
  | "O" -> let m = rd_optbool r in let f = rd_feat r in let rest = rd_bytes r in
    Some { mo_map_entry = m; mo_feat = f; mo_rest = rest }
  | t -> failwith ("conv: msgopts " ^ t)

let rd_genopts r =
  match next r with
  | "-" -> None
  | "O" -> let f = rd_feat r in let rest = rd_bytes r in Some { go_feat = f; go_rest = rest }
  | t -> failwith ("conv: genopts " ^ t)

let rd_field r =
  expect r "f";
  let name = rd_bytes r in let number = rd_z r in let label = rd_n r in let ty = rd_optn r in
  let tn = rd_optbytes r in let ext = rd_optbytes r in let def = rd_optbytes r in let oi = rd_optz r in
  let jn = rd_optbytes r in let p3 = rd_optbool r in let o = rd_fieldopts r in
  { f_name = name; f_number = number; f_label = label; f_type = ty; f_type_name = tn; f_extendee = ext;
    f_default = def; f_oneof_index = oi; f_json_name = jn; f_p3opt = p3; f_opts = o }

let rd_pair r = let a = rd_z r in let b = rd_z r in (a, b)

let rd_enum r =
  expect r "e";
  let name = rd_bytes r in
  let vals = rd_list r (fun r -> expect r "v"; let n = rd_bytes r in let num = rd_z r in let o = rd_optbytes r in
                         { ev_name = n; ev_number = num; ev_opts = o }) in
  let rr = rd_list r rd_pair in
  let rn = rd_list r rd_bytes in
  let o = rd_genopts r in
  let vis = rd_n r in
  { e_name = name; e_values = vals; e_rranges = rr; e_rnames = rn; e_opts = o; e_vis = vis }

let rec rd_msg r =
  expect r "m";
  let name = rd_bytes r in
  let fields = rd_list r rd_field in
  let exts = rd_list r rd_field in
  let nested = rd_list r rd_msg in
  let enums = rd_list r rd_enum in
  let xr = rd_list r (fun r -> let p = rd_pair r in let o = rd_optbytes r in (p, o)) in
  let oneofs = rd_list r (fun r -> expect r "o"; let n = rd_bytes r in let o = rd_genopts r in { o_name = n; o_opts = o }) in
  let rr = rd_list r rd_pair in
  let rn = rd_list r rd_bytes in
  let o = rd_msgopts r in
  let vis = rd_n r in
  Coq_mkMsgP (name, fields, exts, nested, enums, xr, oneofs, rr, rn, o, vis)

let rd_file r =
  expect r "P";
  let name = rd_optbytes r in let pkg = rd_optbytes r in let syn = rd_optbytes r in let ed = rd_optn r in
  let deps = rd_list r rd_bytes in
  let pub = rd_list r rd_z in
  let msgs = rd_list r rd_msg in
  let enums = rd_list r rd_enum in
  let exts = rd_list r rd_field in
  let svcs = rd_list r (fun r -> expect r "s"; let n = rd_bytes r in let ms = rd_list r rd_bytes in let o = rd_optbytes r in
                         { s_name = n; s_methods = ms; s_opts = o }) in
  let o = rd_genopts r in
  { fp_name = name; fp_package = pkg; fp_syntax = syn; fp_edition = ed; fp_deps = deps; fp_public = pub;
    fp_msgs = msgs; fp_enums = enums; fp_exts = exts; fp_svcs = svcs; fp_opts = o }

let rd_env r =
  rd_list r (fun r -> let n = rd_bytes r in let k = rd_n r in let imp = rd_bool r in let me = rd_bool r in
              { r_full = n; r_kind = k; r_imported = imp; r_mapentry = me })

(* ---- token writer *)
let buf : string list ref = ref []
let emit s = buf := s :: !buf
let w_bytes b = emit (hex_of_bytes b)
let w_optbytes = function None -> emit "-" | Some b -> w_bytes b
let w_z z = emit (hex_of_z z)
let w_n n = emit (hex_of_n n)
let w_optz = function None -> emit "-" | Some z -> w_z z
let w_optn = function None -> emit "-" | Some n -> w_n n
let w_optbool = function None -> emit "-" | Some true -> emit "1" | Some false -> emit "0"
let w_bool b = emit (tok_of_bool b)
let w_count l = emit (hex_of_n (n_of_int (Stdlib.List.length l)))
let w_list l f = w_count l; Stdlib.List.iter f l

let w_feat = function
  | None -> emit "-"
  | Some f -> emit "F"; w_optn f.fo_presence; w_optn f.fo_enum; w_optn f.fo_rep; w_optn f.fo_utf8;
    w_optn f.fo_msgenc; w_optn f.fo_json; w_bytes f.fo_rest
let w_fieldopts = function
  | None -> emit "-"
  | Some o -> emit "O"; w_optbool o.o_packed; w_optbool o.o_lazy; w_feat o.o_feat; w_bytes o.o_rest
let w_msgopts = function
  | None -> emit "-"
  | Some o -> emit "O"; w_optbool o.mo_map_entry; w_feat o.mo_feat; w_bytes o.mo_rest
let w_genopts = function
  | None -> emit "-"
  | Some o -> emit "O"; w_feat o.go_feat; w_bytes o.go_rest

let w_field f =
  emit "f"; w_bytes f.f_name; w_z f.f_number; w_n f.f_label; w_optn f.f_type; w_optbytes f.f_type_name;
  w_optbytes f.f_extendee; w_optbytes f.f_default; w_optz f.f_oneof_index; w_optbytes f.f_json_name;
  w_optbool f.f_p3opt; w_fieldopts f.f_opts
let w_pair (a, b) = w_z a; w_z b
let w_enum e =
  emit "e"; w_bytes e.e_name;
  w_list e.e_values (fun v -> emit "v"; w_bytes v.ev_name; w_z v.ev_number; w_optbytes v.ev_opts);
  w_list e.e_rranges w_pair; w_list e.e_rnames w_bytes; w_genopts e.e_opts; w_n e.e_vis
let rec w_msg (Coq_mkMsgP (name, fields, exts, nested, enums, xr, oneofs, rr, rn, o, vis)) =
  emit "m"; w_bytes name; w_list fields w_field; w_list exts w_field; w_list nested w_msg; w_list enums w_enum;
  w_list xr (fun (p, o) -> w_pair p; w_optbytes o);
  w_list oneofs (fun o -> emit "o"; w_bytes o.o_name; w_genopts o.o_opts);
  w_list rr w_pair; w_list rn w_bytes; w_msgopts o; w_n vis
let w_file p =
  emit "P"; w_optbytes p.fp_name; w_optbytes p.fp_package; w_optbytes p.fp_syntax; w_optn p.fp_edition;
  w_list p.fp_deps w_bytes; w_list p.fp_public w_z; w_list p.fp_msgs w_msg; w_list p.fp_enums w_enum;
  w_list p.fp_exts w_field;
  w_list p.fp_svcs (fun s -> emit "s"; w_bytes s.s_name; w_list s.s_methods w_bytes; w_optbytes s.s_opts);
  w_genopts p.fp_opts

(* ---- observation of a resolved file (same layout as convObsFile in Go) *)
let w_obs_field syntax parent_full oneof_names f =
  emit "f"; w_bytes f.rf_full; w_z f.rf_number; w_n f.rf_card; w_n f.rf_kind;
  w_bool (has_json_name f); w_bytes (json_name f); w_bool (has_presence f); w_bool (is_packed f);
  w_bool (is_list f); w_bool (is_map f); w_bool (has_optional_keyword syntax f); w_bool f.rf_lazy;
  w_bool (f.rf_default <> None);
  (match f.rf_oneof with
   | None -> emit "-"
   | Some k -> w_bytes (Stdlib.List.nth oneof_names (int_of_nat k)));
  (match f.rf_extendee with Some t -> w_bytes t.t_full | None -> w_bytes parent_full);
  (match f.rf_msg with
   | Some t -> w_bytes t.t_full; w_bool t.t_mapentry; w_bool t.t_placeholder
   | None -> emit "-"; emit "0"; emit "0");
  (match f.rf_enum with
   | Some t -> w_bytes t.t_full; w_bool t.t_placeholder
   | None -> emit "-"; emit "0");
  w_bool (rf_is_ext f)

let w_obs_enum e =
  emit "E"; w_bytes e.re_full; w_bool (not e.re_ef.ef_open);
  w_list e.re_values (fun v -> emit "V"; w_bytes v.rv_full; w_z v.rv_number);
  w_list e.re_rranges w_pair; w_list e.re_rnames w_bytes

let rec w_obs_msg syntax (Coq_mkRMsg (full, me, fields, oneofs, enums, msgs, exts, xr, rr, rn, _, _, _)) =
  emit "M"; w_bytes full; w_bool me;
  let onames = Stdlib.List.map (fun o -> o.ro_full) oneofs in
  w_list fields (w_obs_field syntax full onames);
  w_count oneofs;
  Stdlib.List.iteri (fun i o ->
      emit "o"; w_bytes o.ro_full; w_bool (is_synthetic syntax fields (nat_of_int i));
      w_count (oneof_members fields (nat_of_int i))) oneofs;
  w_list enums w_obs_enum;
  w_list msgs (w_obs_msg syntax);
  w_list exts (w_obs_field syntax full []);
  w_list xr (fun (p, _) -> w_pair p);
  w_list rr w_pair; w_list rn w_bytes;
  w_list (required_numbers fields) w_z

let w_obs_file d =
  emit "ok"; w_bytes d.rfl_path; w_bytes d.rfl_package; w_n d.rfl_syntax; w_n d.rfl_edition;
  w_list d.rfl_enums w_obs_enum;
  w_list d.rfl_msgs (w_obs_msg d.rfl_syntax);
  w_list d.rfl_exts (w_obs_field d.rfl_syntax d.rfl_package []);
  w_list d.rfl_svcs (fun s -> emit "s"; w_bytes s.rs_full; w_list s.rs_methods w_bytes)

let flush () = let r = Stdlib.List.rev !buf in buf := []; r
let canon _ s = s
let err e = ["e" ^ string_of_int (int_of_n e)]

let handle op args =
  buf := [];
  let r = { toks = args } in
  match op with
  | "newfile" ->
    let env = rd_env r in let p = rd_file r in
    (match new_file canon env p with Ok d -> w_obs_file d; flush () | Err e -> err e)
  | "fdbuild" ->
    let env = rd_env r in let p = rd_file r in
    (match fd_build canon env p with Ok d -> w_obs_file d; flush () | Err e -> err e)
  | "roundtrip" ->
    let env = rd_env r in let p = rd_file r in
    (match new_file canon env p with Ok d -> emit "ok"; w_file (to_proto d); flush () | Err e -> err e)
  | "normalize" ->
    let env = rd_env r in let p = rd_file r in
    w_file (normalize canon env p); flush ()
  | "fullnames" ->
    let p = rd_file r in
    let ds = decls_file p in
    hex_of_n (n_of_int (Stdlib.List.length ds)) :: Stdlib.List.map (fun d -> hex_of_bytes d.d_full) ds
  | "resolve" ->
    let scope = rd_bytes r in let rf = rd_bytes r in let want = rd_n r in
    let locals = rd_list r (fun r -> let n = rd_bytes r in let k = rd_n r in
                             { d_full = n; d_name = fn_name n; d_kind = k; d_mapentry = false }) in
    let env = rd_env r in
    (match find_descriptor locals env scope rf with
     | LFound (full, k, _, _) -> if k = want then ["found"; hex_of_bytes full] else ["wrongkind"; hex_of_bytes full]
     | LNotFound -> ["notfound"]
     | LNotImported -> ["notimported"]
     | LInvalid -> ["invalid"])
  | "jsonname" -> [hex_of_bytes (json_camel (rd_bytes r))]
  | "names" ->
    let s = rd_bytes r in
    [tok_of_bool (ident_ok s); tok_of_bool (fullname_ok s); hex_of_bytes (fn_parent s); hex_of_bytes (fn_name s)]
  | _ -> failwith ("conv: unknown op " ^ op)

let () = register "conv" handle
