(* family "det" (C05): deterministic marshaling of concrete values / operation histories,
   model Msg/DetModel.v.  Token formats: harness/cmd/h/fam_det.go, values as in fam_msg.ml
   (but bindings in assignment order, map entries in insertion order).
     det  <schema id> <value>            | x<bytes>
     hist <schema id> <nops> <op>...     | x<bytes>
       op = S <num> <n> <val>... | C <num> | P <num> <key> <val> | D <num> <key> | U x<bytes> *)
open Util
open DetModel

let zero = nat_of_int 0

let rec parse_ops k toks acc =
  if k = 0 then (if toks <> [] then failwith "det: trailing op tokens"; Stdlib.List.rev acc)
  else match toks with
    | "S" :: num :: n :: r ->
      let rec vals j toks acc =
        if j = 0 then (Stdlib.List.rev acc, toks)
        else let (v, r) = Fam_msg.parse_value toks in vals (j - 1) r (v :: acc) in
      let (vs, r') = vals (int_of_string n) r [] in
      parse_ops (k - 1) r' (DSet (n_of_hex num, vs) :: acc)
    | "C" :: num :: r -> parse_ops (k - 1) r (DClear (n_of_hex num) :: acc)
    | "P" :: num :: key :: r ->
      let (v, r') = Fam_msg.parse_value r in
      parse_ops (k - 1) r' (DPut (n_of_hex num, Fam_msg.parse_scalar key, v) :: acc)
    | "D" :: num :: key :: r -> parse_ops (k - 1) r (DDel (n_of_hex num, Fam_msg.parse_scalar key) :: acc)
    | "U" :: u :: r -> parse_ops (k - 1) r (DUnk (bytes_of_hex u) :: acc)
    | _ -> failwith "det: bad op tokens"

let handle op args =
  match op, args with
  | "det", id :: toks ->
    let s = Fam_msg.schema_of_id id in
    let (v, _) = Fam_msg.parse_value toks in
    [hex_of_bytes (det_encode_dump s zero v)]
  | "hist", id :: nops :: toks ->
    let s = Fam_msg.schema_of_id id in
    let md = match s with m :: _ -> m | [] -> [] in
    let ops = parse_ops (int_of_string nops) toks [] in
    [hex_of_bytes (det_encode_dump s zero (det_run md ops))]
  | _ -> failwith ("det: unknown op " ^ op)

let () = register "det" handle
