(* family "pres": field presence (C11).  Model: coq/theories/Msg/PresenceModel.v.
   Observation tokens must be produced exactly as harness/cmd/h/fam_pres.go prints them. *)
open Util
open PresenceModel

let pres_fp_of = function
  | "E" -> Some FPExplicit | "I" -> Some FPImplicit | "L" -> Some FPLegacyRequired | "-" -> None
  | s -> failwith ("pres: bad field_presence token " ^ s)
let pres_syn_of = function
  | "2" -> SProto2 | "3" -> SProto3 | "e" -> SEditions | s -> failwith ("pres: bad syntax " ^ s)
let pres_lbl_of = function
  | "o" -> LOptional | "q" -> LRequired | "r" -> LRepeated | s -> failwith ("pres: bad label " ^ s)

let pres_tail s = String.sub s 1 (String.length s - 1)
let pres_val_of (tok : string) : pval =
  if String.length tok = 0 then failwith "pres: empty value token";
  match tok.[0] with
  | 'b' -> PVBool (tok = "b1")
  | 'i' -> PVInt (n_of_hex (pres_tail tok))
  | 'f' -> PVF32 (n_of_hex (pres_tail tok))
  | 'd' -> PVF64 (n_of_hex (pres_tail tok))
  | 'x' -> PVBytes (bytes_of_hex tok)
  | _ -> failwith ("pres: bad value token " ^ tok)
let pres_zero_of = function
  | "b" -> PVBool false | "i" -> PVInt BinNums.N0 | "f" -> PVF32 BinNums.N0 | "d" -> PVF64 BinNums.N0
  | "x" -> PVBytes [] | s -> failwith ("pres: bad kind " ^ s)
let pres_class_of = function
  | "exp" -> FCExplicit | "imp" -> FCImplicit | "msg" -> FCMessage | "list" -> FCList | "map" -> FCMap
  | s -> failwith ("pres: bad class " ^ s)

let pres_op_of (tok : string) : pop =
  match tok.[0] with
  | 'S' -> OpSet (pres_val_of (pres_tail tok))
  | 'C' -> OpClear
  | 'M' -> OpMutable
  | 'G' -> OpGet
  | 'R' -> OpGet   (* binary round trip in mid-history: no change of the abstract state (C11_explicit_survives_roundtrip) *)
  | 'A' -> OpAppend (pres_val_of (pres_tail tok))
  | 'T' -> OpTruncate (nat_of_int (int_of_n (n_of_hex (pres_tail tok))))
  | 'L' -> let body = pres_tail tok in
           OpSetList (if body = "" then [] else Stdlib.List.map pres_val_of (String.split_on_char ',' body))
  | 'K' -> let body = pres_tail tok in
           let eq = String.index body '=' in
           OpMapSet (n_of_hex (String.sub body 0 eq), pres_val_of (String.sub body (eq + 1) (String.length body - eq - 1)))
  | 'D' -> OpMapClear (n_of_hex (pres_tail tok))
  | _ -> failwith ("pres: bad op " ^ tok)

let pres_flags_of (s : string) : (bool * bool) list =
  Stdlib.List.init (String.length s) (fun i -> match s.[i] with
    | 'n' -> (false, false) | 'm' -> (true, false) | 'l' -> (true, true)
    | _ -> failwith ("pres: bad flags " ^ s))

let rec pres_zeros n = if n <= 0 then [] else BinNums.N0 :: pres_zeros (n - 1)

let handle op args =
  match op, args with
  | "haspres", _ :: syn :: lbl :: oneof :: p3 :: msg :: ext :: ismap :: islazy :: chain ->
      let syn = pres_syn_of syn in
      let fp = resolve_fp (default_fp syn) (Stdlib.List.map pres_fp_of chain) in
      let a = { fa_syntax = syn; fa_label = pres_lbl_of lbl; fa_oneof = bool_of_tok oneof; fa_p3opt = bool_of_tok p3;
                fa_msg = bool_of_tok msg; fa_ext = bool_of_tok ext; fa_fp = fp } in
      let (u, l) = use_presence a (bool_of_tok ismap) (bool_of_tok islazy) in
      [tok_of_bool (has_presence a); tok_of_bool u; tok_of_bool l;
       hex_of_n (PresenceCodec.pc_card a (bool_of_tok ismap) false)]
  | "bitmap", _ :: nwords :: ops ->
      let s = ref (pres_zeros (int_of_n (n_of_hex nwords))) in
      let out = ref [] in
      Stdlib.List.iter (fun o ->
        let i = n_of_hex (pres_tail o) in
        match o.[0] with
        | 's' | 'n' -> s := bm_set !s i
        | 'c' -> s := bm_clear !s i
        | 'p' -> out := tok_of_bool (bm_present !s i) :: !out
        | 'a' -> out := tok_of_bool (bm_any !s i) :: !out
        | _ -> failwith ("pres: bad bitmap op " ^ o)) ops;
      Stdlib.List.rev !out @ Stdlib.List.map hex_of_n !s
  | "go_bitmap", flavour :: nwords :: base :: ops ->
      (* Tier T: the same history through the Gallina translation of presence.go / api_export_opaque.go
         (Gen/PresenceGo.v) over a heap of nwords zero words stored from address base on.  Flavour x
         calls the Export functions with the address of the word (computed here as the harness does:
         &arr[i/32]); flavour p goes through presence.toElem. *)
      let base = z_of_hex base in
      let zw = Stdlib.List.map (fun _ -> BinNums.Z0) (pres_zeros (int_of_n (n_of_hex nwords))) in
      let h = ref { PresenceHeap.h_base = base; PresenceHeap.h_words = zw } in
      let out = ref [] in
      let bad = ref "" in
      let get what o = match o with
        | GoInt.Val a -> Some a
        | GoInt.Panic -> (if !bad = "" then bad := what ^ ":panic"); None
        | GoInt.Fuel -> (if !bad = "" then bad := what ^ ":fuel"); None in
      let x = flavour = "x" in
      Stdlib.List.iter (fun o ->
        let i = z_of_hex (pres_tail o) in
        let part = BinInt.Z.add base (BinInt.Z.mul (z_of_int 4) (BinInt.Z.div i (z_of_int 32))) in
        let size = BinInt.Z.mul (z_of_int 32) (z_of_hex nwords) in
        match o.[0] with
        | 's' -> (match get o (if x then PresenceGo.go_Export_SetPresent !h part i size
                               else PresenceGo.go_presence_SetPresent !h base i size) with Some h' -> h := h' | None -> ())
        | 'n' -> (match get o (if x then PresenceGo.go_Export_SetPresentNonAtomic !h part i size
                               else PresenceGo.go_presence_SetPresentUnatomic !h base i size) with Some h' -> h := h' | None -> ())
        | 'c' -> (match get o (if x then PresenceGo.go_Export_ClearPresent !h part i
                               else PresenceGo.go_presence_ClearPresent !h base i) with Some h' -> h := h' | None -> ())
        | 'p' -> (match get o (if x then PresenceGo.go_Export_Present !h part i
                               else PresenceGo.go_presence_Present !h base i) with Some b -> out := tok_of_bool b :: !out | None -> ())
        | 'a' -> (match get o (PresenceGo.go_presence_AnyPresent !h base i) with Some b -> out := tok_of_bool b :: !out | None -> ())
        | _ -> failwith ("pres: bad bitmap op " ^ o)) ops;
      let first = match get "LoadPresenceCache" (PresenceGo.go_presence_LoadPresenceCache !h base) with Some w -> [hex_of_z w] | None -> [] in
      if !bad <> "" then ["model-fault:" ^ !bad]
      else Stdlib.List.rev !out @ Stdlib.List.map hex_of_z (!h).PresenceHeap.h_words @ first
  | "hist", _ :: cls :: kind :: ops ->
      let st = init_state (pres_class_of cls) (pres_zero_of kind) in
      Stdlib.List.map tok_of_bool (fhas_trace st (Stdlib.List.map pres_op_of ops))
  | "ohist", _ :: nwords :: flags :: ops ->
      let flags = pres_flags_of flags in
      let s = ref { o_bits = pres_zeros (int_of_n (n_of_hex nwords)); o_vals = (fun _ -> PVInt BinNums.N0) } in
      let out = ref [] in
      Stdlib.List.iter (fun o ->
        let n = String.length o in
        let pos = int_of_n (n_of_hex (String.sub o 0 (n - 1))) in
        let idx = fst (presence_index flags (nat_of_int pos)) in
        let op = match o.[n - 1] with
          | 'S' -> OpSet (PVInt BinNums.N0) | 'C' -> OpClear | 'M' -> OpMutable | 'G' -> OpGet
          | _ -> failwith ("pres: bad ohist op " ^ o) in
        s := ostep !s (idx, op);
        out := tok_of_bool (ohas !s idx) :: !out) ops;
      Stdlib.List.rev !out @ Stdlib.List.map hex_of_n (!s).o_bits
  | "enc", [_; cls; num; tok] ->
      let cls = pres_class_of cls in
      let st = match cls, tok with
        | FCExplicit, "-" -> StOpt None
        | FCExplicit, _ -> StOpt (Some (pres_val_of tok))
        | _, _ -> StVal (pres_val_of tok) in
      [hex_of_bytes (enc_field cls (n_of_hex num) st)]
  | "chas", id :: nums :: toks ->
      (* Has on the canonical value and the emitted wire fields, over the message codec model of C03 *)
      let s = Fam_msg.schema_of_id id and tid = Datatypes.O in
      let (v, _) = Fam_msg.parse_value toks in
      if not (MsgValid.msg_valid false s (Fam_msg.nat_cached 10000) tid v) then ["not-canonical"]
      else if not (PresenceCodec.pc_groups_scan s tid v) then ["groups-do-not-scan"]
      else begin
        let nums = if nums = "" then [] else Stdlib.List.map n_of_hex (String.split_on_char ',' nums) in
        let bits = String.concat "" (Stdlib.List.map (fun n -> tok_of_bool (PresenceCodec.pc_has s tid v n)) nums) in
        let wire = Stdlib.List.map (fun w -> hex_of_n (fst w)) (PresenceCodec.pc_wire s tid v) in
        [bits; (if wire = [] then "-" else String.concat "," wire)]
      end
  | "dec", [num; b] ->
      (match dec_explicit (n_of_hex num) (bytes_of_hex b) with
       | WireModel.Ok None -> ["ok"; "0"; "0"]
       | WireModel.Ok (Some v) -> ["ok"; "1"; hex_of_n v]
       | WireModel.Err _ -> ["err"])
  | _ -> failwith ("pres: unknown op " ^ op)

let () = register "pres" handle
