(* Shared glue of the format round-trip families jsonrt (C20) and textrt (C24): the schema tokens of
   family msg followed by the name tables (format: harness/cmd/h/fam_rt_common.go rtSchemaTokens).

     <msg schema tokens> N <ntypes> { T <fullname> <wkt> <nfields> { <text> <json> <inoneof> <enum idx> } }
                         E <nenums> { <fullname> <isnull> <nvals> { <name> <number> } }              *)
open Util
open RtSchema

let split_at_marker (m : string) (toks : string list) : string list * string list =
  let rec go acc = function
    | [] -> failwith ("rt: missing marker " ^ m)
    | t :: r when t = m -> (Stdlib.List.rev acc, r)
    | t :: r -> go (t :: acc) r in
  go [] toks

let parse_names (toks : string list) : names =
  match toks with
  | n :: rest ->
    let n = int_of_string n in
    let rec msgs k toks acc =
      if k = 0 then (Stdlib.List.rev acc, toks)
      else match toks with
        | "T" :: full :: wkt :: nf :: r ->
          let rec fs j toks acc =
            if j = 0 then (Stdlib.List.rev acc, toks)
            else match toks with
              | tx :: js :: ino :: en :: r ->
                let en = int_of_string en in
                fs (j - 1) r ({ fn_text = bytes_of_hex tx; fn_json = bytes_of_hex js; fn_inoneof = (ino = "1");
                                fn_enum = (if en < 0 then None else Some (nat_of_int en)) } :: acc)
              | _ -> failwith "rt: short field names" in
          let (fl, r') = fs (int_of_string nf) r [] in
          msgs (k - 1) r' ({ mn_full = bytes_of_hex full; mn_wkt = n_of_int (int_of_string wkt); mn_fields = fl } :: acc)
        | _ -> failwith "rt: bad message names" in
    let (ml, r) = msgs n rest [] in
    (match r with
     | "E" :: ne :: r ->
       let rec enums k toks acc =
         if k = 0 then (Stdlib.List.rev acc, toks)
         else match toks with
           | _full :: isnull :: nv :: r ->
             let rec vs j toks acc =
               if j = 0 then (Stdlib.List.rev acc, toks)
               else match toks with
                 | name :: num :: r -> vs (j - 1) r ((bytes_of_hex name, z_of_hex num) :: acc)
                 | _ -> failwith "rt: short enum values" in
             let (vl, r') = vs (int_of_string nv) r [] in
             enums (k - 1) r' ({ e_null = (isnull = "1"); e_vals = vl } :: acc)
           | _ -> failwith "rt: bad enum" in
       let (el, r') = enums (int_of_string ne) r [] in
       if r' <> [] then failwith "rt: trailing name tokens";
       { nm_msgs = ml; nm_enums = el }
     | _ -> failwith "rt: missing enum table")
  | [] -> failwith "rt: empty names"

let parse_schema_names (toks : string list) : MsgSchema.schema * names =
  let (st, nt) = split_at_marker "N" toks in
  (Fam_msg.parse_schema st, parse_names nt)

let lim_nat = lazy (nat_of_int 10000)
let fuel_nat = lazy (nat_of_int 200)

let string_of_bytes (bs : Byte.byte list) : string =
  let b = Buffer.create 16 in
  Stdlib.List.iter (fun x -> Buffer.add_char b (Char.chr (int_of_byte x))) bs; Buffer.contents b

(* NaN normal form (the model identifies all NaNs): schema-directed replacement of NaN bit patterns
   in float / double fields by the NaN the decoders produce.  Not inside Any value bytes. *)
let norm_nan (s : MsgSchema.schema) (tid : int) (v : MsgValue.value) : MsgValue.value =
  let open MsgSchema in
  let open MsgValue in
  let fix_scalar (k : kind) (x : value) : value =
    match k, x with
    | KS SkFloat, VS (SN b) -> if RtSchema.f32_is_nan b then VS (SN RtSchema.f32_nan) else x
    | KS SkDouble, VS (SN b) -> if RtSchema.f64_is_nan b then VS (SN RtSchema.f64_nan) else x
    | _ -> x in
  let rec go (tid : int) (v : value) : value =
    match v with
    | VMsg (fs, u) ->
      let md = try Stdlib.List.nth s tid with _ -> [] in
      VMsg (Stdlib.List.map (fun (num, vs) ->
          match msg_find_field md num with
          | None -> (num, vs)
          | Some fd ->
            let elem (x : value) : value =
              match fd.f_kind, x with
              | (KMsg t | KGrp t), VMsg _ -> go (int_of_nat t) x
              | k, _ -> fix_scalar k x in
            (num, Stdlib.List.map (fun x -> match x with
                | VEntry (k, y) -> VEntry (k, elem y)
                | _ -> elem x) vs)) fs, u)
    | _ -> v in
  go tid v
