(* family "textrt" (C24): the tree-level prototext model (Text/TextMsgModel.v) against the implementation.

   Ops (harness/cmd/h/fam_textrt.go):
     schema <id> <schema+name tokens>                        | ok
     enc <id> <opts bits> <value> T <impl tree>               | ok  (model tree matches the implementation's)
     enc <id> <opts bits> <value> X                           | err utf8
     dec <id> <impl tree>                                     | ok <value>  |  err
   tree tokens:  M <n> { <name xhex> <value> }   value = M ... | S <xbytes> | L <xraw> <int|-> <f64|-> <f32|-> *)
open Util
open TextMsgModel

let tables : (string, MsgSchema.schema * RtSchema.names) Hashtbl.t = Hashtbl.create 64
let table id = try Hashtbl.find tables id with Not_found -> failwith ("textrt: unknown schema id " ^ id)

let opt_n s = if s = "-" then None else Some (n_of_hex s)

let rec parse_fields (toks : string list) : (Byte.byte list * tv) list * string list =
  match toks with
  | "M" :: n :: rest ->
    let rec go k toks acc =
      if k = 0 then (Stdlib.List.rev acc, toks)
      else match toks with
        | name :: r -> let (v, r') = parse_val r in go (k - 1) r' ((bytes_of_hex name, v) :: acc)
        | [] -> failwith "textrt: short message" in
    go (int_of_string n) rest []
  | _ -> failwith "textrt: bad tree tokens"
and parse_val (toks : string list) : tv * string list =
  match toks with
  | "M" :: _ -> let (fs, r) = parse_fields toks in (TMsg fs, r)
  | "S" :: s :: rest -> (TScalar (TStr (bytes_of_hex s)), rest)
  | "L" :: raw :: iv :: f64 :: f32 :: rest ->
    (TScalar (TRaw (bytes_of_hex raw, (if iv = "-" then None else Some (z_of_hex iv)), opt_n f64, opt_n f32)), rest)
  | _ -> failwith "textrt: bad value tokens"

let err_class = function
  | TEUtf8 -> "utf8" | TESchema -> "model:schema" | TEFuel -> "model:fuel" | TEDecode -> "decode"
  | TEUnmodelled -> "model:unmodelled"

let rec show_fields (l : (Byte.byte list * tv) list) : string =
  String.concat " " (Stdlib.List.map (fun (k, v) -> Fam_rt.string_of_bytes k ^ ":" ^ show v) l)
and show (x : tv) : string =
  match x with
  | TMsg l -> "{" ^ show_fields l ^ "}"
  | TScalar (TInt z) -> "i" ^ hex_of_z z
  | TScalar (TF32 b) -> "f32:" ^ hex_of_n b
  | TScalar (TF64 b) -> "f64:" ^ hex_of_n b
  | TScalar (TStr s) -> "\"" ^ String.escaped (Fam_rt.string_of_bytes s) ^ "\""
  | TScalar (TLit s) -> Fam_rt.string_of_bytes s
  | TScalar (TRaw (s, _, _, _)) -> "raw:" ^ Fam_rt.string_of_bytes s

let opts_of_bits (b : int) : topts =
  { to_multiline = b land 1 <> 0; to_indent = b land 2 <> 0; to_ascii = b land 4 <> 0 }

let handle op args =
  match op, args with
  | "schema", id :: toks ->
    let (s, nm) = Fam_rt.parse_schema_names toks in
    Hashtbl.replace tables id (s, nm);
    (* the hypothesis of the C24 theorems about the schema table, checked on every schema used *)
    if TextMsgValid.text_schema_ok s nm then ["ok"] else ["schema-not-ok"]
  | "cls", id :: toks ->
    let (s, nm) = table id in
    let (v, _) = Fam_msg.parse_value toks in
    let v = Fam_rt.norm_nan s 0 v in
    let valid strict = TextMsgValid.text_valid strict s nm (Lazy.force Fam_rt.lim_nat) (Lazy.force Fam_rt.fuel_nat) Datatypes.O v in
    if valid true then ["v"] else if valid false then ["fwd1"] else ["nv"]
  | "enc", id :: bits :: toks ->
    let (s, nm) = table id in
    let (v, rest) = Fam_msg.parse_value toks in
    let r = to_text (opts_of_bits (int_of_string bits)) s nm (Lazy.force Fam_rt.lim_nat) (Lazy.force Fam_rt.fuel_nat) Datatypes.O v in
    (match r, rest with
     | TOk fs, "T" :: tt ->
       let (it, _) = parse_fields tt in
       if tfields_match fs it then ["ok"]
       else ["diff"; String.map (fun c -> if c = '\t' || c = '\n' then ' ' else c) (show_fields fs)]
     | TOk _, _ -> ["ok-but-impl-failed"]
     | TErr e, _ -> ["err"; err_class e])
  | "dec", id :: toks ->
    let (s, nm) = table id in
    let (it, _) = parse_fields toks in
    (match of_text s nm (Lazy.force Fam_rt.fuel_nat) Datatypes.O it with
     | TOk v -> "ok" :: Fam_msg.value_tokens v
     | TErr e -> ["err"; err_class e])
  | _ -> failwith ("textrt: unknown op " ^ op)

let () = register "textrt" handle
