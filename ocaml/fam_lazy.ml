(* family "lazy" (C17): the lazy-decoding model Msg/LazyModel.v.
     lz <schema id> <limit hex> <xbytes> <raw 0/1>
        | <verdict> [<strict verdict> <raw Marshal bytes or -> <canonical dump after reading every field>]
     verdict: ok | e1 parse | e2 depth | e3 utf8; strict verdict: ok | e4 required | e<k>
   Schemas are the ones stored by family msg (`schema` lines). *)
open Util

let cls c = match int_of_n c with 0 -> "ok" | 6 -> "e4" | k -> "e" ^ string_of_int k

let handle op args =
  match op, args with
  | "lz", [id; limit; b; raw] ->
    let s = Fam_msg.schema_of_id id in
    let lim = Fam_msg.nat_cached (int_of_n (n_of_hex limit)) and tid = Fam_msg.nat_cached 0 in
    let bs = bytes_of_hex b in
    let v = cls (LazyModel.lz_verdict s lim tid bs) in
    if v <> "ok" then [v]
    else begin
      let strict = cls (LazyModel.lz_strict s lim tid bs) in
      let rawtok = if raw = "1" then hex_of_bytes (LazyModel.lz_raw_of s lim tid bs) else "-" in
      match LazyModel.lz_value_of s lim tid bs with
      | Some value -> v :: strict :: rawtok :: Fam_msg.value_tokens value
      | None -> [v; "?"]
    end
  | _ -> failwith ("lazy: unknown op " ^ op)

let () = register "lazy" handle
