(* family "reg": protoregistry.Files / protoregistry.Types histories (C33).
   Tokens must be parsed / printed exactly as harness/cmd/h/fam_reg.go prints them. *)
open Util
open RegistryModel

(* ---- file tokens: F,path,pkg,nE,enum*,nM,msg*,nX,ext*,nS,svc* (comma separated atoms) *)
let parse_file (tok : string) : file =
  let atoms = ref (String.split_on_char ',' tok) in
  let next () = match !atoms with
    | [] -> failwith "reg: truncated file token"
    | a :: r -> atoms := r; a in
  let nm () = bytes_of_hex (next ()) in
  let count () = int_of_string (next ()) in
  let rec many n f = if n <= 0 then [] else let x = f () in x :: many (n - 1) f in
  let lst f = let n = count () in many n f in
  let enum () = let n = nm () in let vs = lst nm in EnumDecl (n, vs) in
  let rec msg () =
    let n = nm () in
    let ms = lst msg in
    let es = lst enum in
    let xs = lst nm in
    let fs = lst nm in
    let os = lst nm in
    MsgDecl (n, ms, es, xs, fs, os) in
  let svc () = let n = nm () in let ms = lst nm in SvcDecl (n, ms) in
  if next () <> "F" then failwith "reg: bad file token";
  let path = nm () in
  let pkg = nm () in
  let es = lst enum in
  let ms = lst msg in
  let xs = lst nm in
  let ss = lst svc in
  if !atoms <> [] then failwith "reg: trailing atoms in file token";
  { f_path = path; f_pkg = pkg; f_enums = es; f_msgs = ms; f_exts = xs; f_svcs = ss }

let is_file_tok t = String.length t >= 2 && t.[0] = 'F' && t.[1] = ','

let fields t = String.split_on_char ':' t

let id_list sorted (l : Datatypes.nat list) =
  let l = Stdlib.List.map int_of_nat l in
  let l = if sorted then Stdlib.List.sort compare l else l in
  "[" ^ String.concat "," (Stdlib.List.map string_of_int l) ^ "]"

let kind_tok = function
  | KEnum -> "enum" | KEnumVal -> "enumval" | KMsg -> "msg" | KExt -> "ext"
  | KField -> "field" | KOneof -> "oneof" | KSvc -> "svc" | KMethod -> "method"

let files_history (ins : string list) : string list =
  let ftoks = Stdlib.List.filter is_file_tok ins in
  let optoks = Stdlib.List.filter (fun t -> not (is_file_tok t)) ins in
  let pool = Array.of_list (Stdlib.List.map parse_file ftoks) in
  let parse_op t = match fields t with
    | ["reg"; i] -> let i = int_of_string i in FReg (nat_of_int i, pool.(i))
    | ["find"; n] -> FFind (bytes_of_hex n)
    | ["bypath"; p] -> FByPath (bytes_of_hex p)
    | ["num"] -> FNum
    | ["range"] -> FRange
    | ["numpkg"; p] -> FNumPkg (bytes_of_hex p)
    | ["rangepkg"; p] -> FRangePkg (bytes_of_hex p)
    | _ -> failwith ("reg: bad files op " ^ t) in
  let ops = Stdlib.List.map parse_op optoks in
  let (_, obs) = frun ops in
  let show (op, o) = match op, o with
    | _, ORes ROk -> "ok"
    | _, ORes RErrPath -> "e:path"
    | _, ORes RErrPkg -> "e:pkg"
    | _, ORes RErrName -> "e:name"
    | _, ORes ROutOfFuel -> "model:outoffuel"
    | _, ORes RPanic -> "model:panic"
    | _, OFind (FFound d) -> "f:" ^ kind_tok d.d_kind ^ ":" ^ string_of_int (int_of_nat d.d_fid) ^ ":" ^ hex_of_bytes d.d_full
    | _, OFind FNotFound -> "nf"
    | _, OFind FOutOfFuel -> "model:outoffuel"
    | _, OPath (PFound i) -> "f:" ^ string_of_int (int_of_nat i)
    | _, OPath PNotFound -> "nf"
    | _, OPath PMultiple -> "multi"
    | _, ONum n -> string_of_int (int_of_nat n)
    | FRange, OList l -> id_list true l          (* map iteration order: compared as a sorted set *)
    | _, OList l -> id_list false l in
  Stdlib.List.map show (Stdlib.List.combine ops obs)

let types_history (ins : string list) : string list =
  let parse_op t = match fields t with
    | ["regmsg"; i; n] -> TRegMsg (nat_of_int (int_of_string i), bytes_of_hex n)
    | ["regenum"; i; n] -> TRegEnum (nat_of_int (int_of_string i), bytes_of_hex n)
    | ["regext"; i; n; e; num] -> TRegExt (nat_of_int (int_of_string i), bytes_of_hex n, bytes_of_hex e, n_of_hex num)
    | ["findmsg"; n] -> TFindMsg (bytes_of_hex n)
    | ["findurl"; n] -> TFindURL (bytes_of_hex n)
    | ["findenum"; n] -> TFindEnum (bytes_of_hex n)
    | ["findext"; n] -> TFindExt (bytes_of_hex n)
    | ["findextnum"; n; num] -> TFindExtNum (bytes_of_hex n, n_of_hex num)
    | ["nummsg"] -> TNumMsgs
    | ["numenum"] -> TNumEnums
    | ["numext"] -> TNumExts
    | ["numextby"; n] -> TNumExtsBy (bytes_of_hex n)
    | ["rangemsg"] -> TRangeMsgs
    | ["rangeenum"] -> TRangeEnums
    | ["rangeext"] -> TRangeExts
    | ["rangeextby"; n] -> TRangeExtsBy (bytes_of_hex n)
    | _ -> failwith ("reg: bad types op " ^ t) in
  let ops = Stdlib.List.map parse_op ins in
  let (_, obs) = trun ops in
  let show = function
    | TORes TOk -> "ok"
    | TORes TErrName -> "e:name"
    | TORes TErrExtNum -> "e:extnum"
    | TOFind (TFound i) -> "f:" ^ string_of_int (int_of_nat i)
    | TOFind TNotFound -> "nf"
    | TOFind TWrongType -> "wrongtype"
    | TONum n -> string_of_int (int_of_nat n)
    | TOList l -> id_list true l in              (* all Types ranges are map iterations *)
  Stdlib.List.map show obs

let handle op args =
  match op, args with
  | "files", ins -> files_history ins
  | "types", ins -> types_history ins
  | "wf", [f] -> [tok_of_bool (wf_file (parse_file f))]
  | _ -> failwith ("reg: unknown op " ^ op)

let () = register "reg" handle
