(* family "known": well-known-type helpers (C43, C44, C23).
   Observation tokens must be produced exactly as harness/cmd/h/fam_known*.go prints them. *)
open Util

(* ---- FieldMask (C44) ---- *)
let nonempty toks = Stdlib.List.filter (fun t -> t <> "") toks
let paths_of toks = Stdlib.List.map bytes_of_hex (nonempty toks)
let out_paths ps = ("n" ^ string_of_int (Stdlib.List.length ps)) :: Stdlib.List.map hex_of_bytes ps

(* split a token list at "," separators *)
let split_masks toks =
  let rec go cur acc = function
    | [] -> Stdlib.List.rev (Stdlib.List.rev cur :: acc)
    | "," :: r -> go [] (Stdlib.List.rev cur :: acc) r
    | t :: r -> go (t :: cur) acc r in
  Stdlib.List.map paths_of (go [] [] toks)

(* schema token: msg;msg;...   msg = xNAME:field,field,...   field = xNAME/k/rep/ref/xTEXTNAME *)
let schemas : (string, FieldMaskModel.schema) Hashtbl.t = Hashtbl.create 8
let parse_schema tok =
  let msgs = String.split_on_char ';' tok in
  Stdlib.List.map (fun m ->
    match String.index_opt m ':' with
    | None -> failwith "bad schema message"
    | Some i ->
      let name = bytes_of_hex (String.sub m 0 i) in
      let rest = String.sub m (i + 1) (String.length m - i - 1) in
      let fields = if rest = "" then [] else
        Stdlib.List.map (fun f ->
          match String.split_on_char '/' f with
          | [n; k; rep; r; tx] ->
            let r = nat_of_int (int_of_string r) in
            { FieldMaskModel.f_name = bytes_of_hex n; f_text = bytes_of_hex tx;
              f_kind = (match k with "s" -> FieldMaskModel.KScalar | "m" -> FieldMaskModel.KMessage r
                                    | "g" -> FieldMaskModel.KGroup r | _ -> failwith "bad kind");
              f_rep = bool_of_tok rep }
          | _ -> failwith "bad schema field") (String.split_on_char ',' rest) in
      { FieldMaskModel.m_name = name; m_fields = fields }) msgs

let handle_fm op args =
  match op, args with
  | "norm", ps -> out_paths (FieldMaskModel.normalize (paths_of ps))
  | "union", toks ->
    (match split_masks toks with
     | mx :: my :: ms -> out_paths (FieldMaskModel.fm_union mx my ms)
     | _ -> failwith "union: need two masks")
  | "isect", toks ->
    (match split_masks toks with
     | mx :: my :: ms -> out_paths (FieldMaskModel.fm_intersect mx my ms)
     | _ -> failwith "isect: need two masks")
  | "schema", [id; tok] ->
    let sc = parse_schema tok in
    Hashtbl.replace schemas id sc; ["ok"; string_of_int (Stdlib.List.length sc)]
  | "pvalid", [id; root; p] ->
    [tok_of_bool (FieldMaskModel.path_valid (Hashtbl.find schemas id) (nat_of_int (int_of_string root)) (bytes_of_hex p))]
  | "isvalid", id :: root :: ps ->
    [tok_of_bool (FieldMaskModel.fm_is_valid (Hashtbl.find schemas id) (nat_of_int (int_of_string root)) (paths_of ps))]
  | "append", id :: root :: toks ->
    (match split_masks toks with
     | [have; ps] ->
       let (out, err) = FieldMaskModel.fm_append (Hashtbl.find schemas id) (nat_of_int (int_of_string root)) have ps in
       tok_of_bool err :: out_paths out
     | _ -> failwith "append: need have , paths")
  | _ -> failwith ("known: unknown op " ^ op)

(* ---- Duration / Timestamp helpers (C43) ---- *)
let handle_time op args =
  match op, args with
  | "asdur", [s; n] -> [hex_of_z (DurationModel.as_duration (z_of_hex s) (z_of_hex n))]
  | "durnew", [d] -> let (s, n) = DurationModel.dur_new (z_of_hex d) in [hex_of_z s; hex_of_z n]
  | "durcheck", [s; n] -> [hex_of_z (DurationModel.dur_check (z_of_hex s) (z_of_hex n))]
  | "tsnew", [u; ns] ->
    let t = { TimestampModel.t_isec = DurationModel.wrap64 (BinInt.Z.add (z_of_hex u) TimestampModel.unix_to_internal);
              t_nsec = z_of_hex ns } in
    let (s, n) = TimestampModel.ts_new t in [hex_of_z s; hex_of_z n]
  | "astime", [s; n] ->
    let t = TimestampModel.as_time (z_of_hex s) (z_of_hex n) in
    [hex_of_z (TimestampModel.time_unix t); hex_of_z t.TimestampModel.t_nsec]
  | "tscheck", [s; n] -> [hex_of_z (TimestampModel.ts_check (z_of_hex s) (z_of_hex n))]
  (* Tier T: the translated Go source (Gen/KnownGo.v); first token = receiver is nil *)
  | "go_asdur", [nl; s; n] -> [hex_of_z (KnownGo.go_dur_Duration_AsDuration (bool_of_tok nl) (z_of_hex s) (z_of_hex n))]
  | "go_durnew", [d] -> let (s, n) = KnownGo.go_dur_New (z_of_hex d) in [hex_of_z s; hex_of_z n]
  | "go_durcheck", [nl; s; n] ->
    [hex_of_z (KnownGo.go_dur_Duration_check (bool_of_tok nl) (z_of_hex s) (z_of_hex n));
     tok_of_bool (KnownGo.go_dur_Duration_IsValid (bool_of_tok nl) (z_of_hex s) (z_of_hex n))]
  | "go_tsnew", [u; ns] -> let (s, n) = KnownGo.go_ts_New (z_of_hex u) (z_of_hex ns) in [hex_of_z s; hex_of_z n]
  | "go_tscheck", [nl; s; n] ->
    [hex_of_z (KnownGo.go_ts_Timestamp_check (bool_of_tok nl) (z_of_hex s) (z_of_hex n));
     tok_of_bool (KnownGo.go_ts_Timestamp_IsValid (bool_of_tok nl) (z_of_hex s) (z_of_hex n))]
  | _ -> failwith ("known: unknown op " ^ op)

(* ---- JSON forms (C23) ---- *)
let mres = function
  | WktJsonModel.MOk s -> ["ok"; hex_of_bytes s]
  | WktJsonModel.MErr c -> ["e" ^ string_of_int (int_of_z c)]
let handle_json op args =
  match op, args with
  | "mdur", [s; n] -> mres (WktJsonModel.marshal_duration (z_of_hex s) (z_of_hex n))
  | "udur", [b] ->
    (match WktJsonModel.unmarshal_duration (bytes_of_hex b) with
     | WktJsonModel.UOk (s, n) -> ["ok"; hex_of_z s; hex_of_z n]
     | WktJsonModel.UErr c -> ["e" ^ string_of_int (int_of_z c)])
  | "mts", [s; n] -> mres (TsJsonModel.marshal_timestamp (z_of_hex s) (z_of_hex n))
  | "uts", [b] ->
    (match TsJsonModel.unmarshal_timestamp (bytes_of_hex b) with
     | WktJsonModel.UOk (s, n) -> ["ok"; hex_of_z s; hex_of_z n]
     | WktJsonModel.UErr c -> ["e" ^ string_of_int (int_of_z c)])
  | "mfm", ps -> mres (WktJsonModel.marshal_fieldmask (paths_of ps))
  | "ufm", [b] ->
    (match WktJsonModel.unmarshal_fieldmask (bytes_of_hex b) with
     | Some ps -> "ok" :: out_paths ps
     | None -> ["e1"])
  | _ -> failwith ("known: unknown op " ^ op)

let handle op args =
  match op with
  | "mdur" | "udur" | "mfm" | "ufm" | "mts" | "uts" -> handle_json op args
  | "asdur" | "durnew" | "durcheck" | "tsnew" | "astime" | "tscheck"
  | "go_asdur" | "go_durnew" | "go_durcheck" | "go_tsnew" | "go_tscheck" -> handle_time op args
  | _ -> handle_fm op args

let () = register "known" handle
