(* family "mset" (C47): MessageSet item format, Unmarshal loop, unknown-section
   re-framing, fast and slow message-level decode/encode.
   Observation tokens must be produced exactly as harness/cmd/h/fam_mset.go prints them. *)
open Util
open BinNums
open MsetModel

let err (e : merr) : string list =
  match e with
  | MWire w -> ["e" ^ string_of_int (int_of_z (WireModel.werr_code w))]
  | MTypeId -> ["etypeid"]
  | MPayload -> ["epayload"]
  | MUnknownData -> ["eunknowndata"]
  | MFuel -> ["efuel"]
  | MImpossible -> ["eimpossible"]

let split c s = if s = "-" || s = "" then [] else String.split_on_char c s
let ids_of_tok s = Stdlib.List.map n_of_hex (split ',' s)
let n_len l = n_of_int (Stdlib.List.length l)

let exts_tok (star : coq_N list) (l : (coq_N * Byte.byte list) list) : string =
  if l = [] then "-" else
  String.concat ";" (Stdlib.List.map (fun (id, p) ->
    if Stdlib.List.mem id star then hex_of_n id ^ "=*" else hex_of_n id ^ "=" ^ hex_of_bytes p) l)

let exts_of_tok s : (coq_N * Byte.byte list) list =
  Stdlib.List.map (fun e ->
    match String.split_on_char '=' e with
    | [id; p] -> (n_of_hex id, bytes_of_hex p)
    | _ -> failwith ("bad ext token " ^ e)) (split ';' s)

(* ---- Tier T: the functions translated from messageset.go by srcmodel_mset
   (Gen/MsetGo.v).  Same observation tokens as the corresponding model ops. ---- *)
let zs_of_hex s = Stdlib.List.map (fun b -> z_of_int (int_of_byte b)) (bytes_of_hex s)
let hex_of_zs (zs : BinNums.coq_Z list) : string =
  let b = Buffer.create 64 in
  Buffer.add_char b 'x';
  Stdlib.List.iter (fun z -> let i = int_of_z z in
                     if i < 0 || i > 255 then Buffer.add_string b "??" else Buffer.add_string b (Printf.sprintf "%02x" i)) zs;
  Buffer.contents b
let nilz : BinNums.coq_Z list = []
(* error class of a translated error value, decided as the harness decides it:
   by identity with protowire.ParseError(k) *)
let go_err (e : GoInt.go_error) : string =
  let rec f k = if k < -6 then "etypeid"
    else if e = WireGo.go_ParseError (z_of_int k) then "e" ^ string_of_int k else f (k - 1) in
  f (-1)

let go_handle op args =
  match op, args with
  | "go_item", [id; p] ->
      let id = z_of_hex id and p = zs_of_hex p in
      let b = MsetGo.go_AppendFieldStart nilz id in
      let b = WireGo.go_AppendTag b (z_of_int 3) (z_of_int 2) in
      let b = WireGo.go_AppendBytes b p in
      let b = MsetGo.go_AppendFieldEnd b in
      let size = BinInt.Z.add (BinInt.Z.add (MsetGo.go_SizeField id) (WireGo.go_SizeTag (z_of_int 3)))
                   (WireGo.go_SizeBytes (z_of_int (Stdlib.List.length p))) in
      Some [hex_of_zs b; hex_of_z size]
  | "go_citem", [wl; b] ->
      let zb = zs_of_hex b in
      Some (match MsetGo.go_ConsumeFieldValue zb (zb = []) (bool_of_tok wl) with
       | GoInt.Val (((id, m), n), e) ->
           if e = GoInt.GoNil then ["ok"; hex_of_z id; hex_of_zs m; string_of_int (int_of_z n)] else [go_err e]
       | GoInt.Panic -> ["panic"]
       | GoInt.Fuel -> ["fuel"])
  | "go_sizeunk", [u] ->
      Some (match MsetGo.go_SizeUnknown (zs_of_hex u) with
       | GoInt.Val n -> [hex_of_z n]
       | GoInt.Panic -> ["panic"]
       | GoInt.Fuel -> ["fuel"])
  | "go_appunk", [u] ->
      Some (match MsetGo.go_AppendUnknown nilz (zs_of_hex u) with
       | GoInt.Val (b, e) -> if e = GoInt.GoNil then ["ok"; hex_of_zs b] else ["err"]
       | GoInt.Panic -> ["panic"]
       | GoInt.Fuel -> ["fuel"])
  | _ -> None

let handle op args =
  match go_handle op args with Some r -> r | None ->
  match op, args with
  | "item", [id; p] ->
      let id = n_of_hex id and p = bytes_of_hex p in
      [hex_of_bytes (append_item id p); hex_of_n (size_item id (n_len p))]
  | "citem", [wl; b] ->
      let b = bytes_of_hex b in
      (match consume_item (bool_of_tok wl) b with
       | MOk ((id, m), r) ->
           ["ok"; hex_of_n id; hex_of_bytes m; string_of_int (Stdlib.List.length b - Stdlib.List.length r)]
       | MErr e -> err e)
  | "events", [wl; b] ->
      (match events (bool_of_tok wl) (bytes_of_hex b) with
       | MOk [] -> ["ok"; "-"]
       | MOk l -> ["ok"; String.concat "," (Stdlib.List.map (fun (id, v) -> hex_of_n id ^ ":" ^ hex_of_bytes v) l)]
       | MErr e -> err e)
  | "sizeunk", [u] -> [hex_of_n (size_unknown (bytes_of_hex u))]
  | "appunk", [u] ->
      (match append_unknown (bytes_of_hex u) with
       | MOk b -> ["ok"; hex_of_bytes b]
       | MErr _ -> ["err"])
  | "dec", [path; verb; strct; b] ->
      let verb = ids_of_tok verb and strct = ids_of_tok strct in
      let kn = kn_of (verb @ strct) in
      let dec = if path = "f" then decode_fast else decode_slow in
      (match dec kn payload_ok (bytes_of_hex b) mset_empty with
       | MOk m -> ["ok"; exts_tok strct m.m_ext; hex_of_bytes m.m_unknown]
       | MErr _ -> ["err"])
  | "enc", [path; exts; unk] ->
      let m = { m_ext = Stdlib.List.fold_left (fun acc (id, p) -> ext_merge id p acc) [] (exts_of_tok exts);
                m_unknown = bytes_of_hex unk } in
      let enc, sz = if path = "f" then encode, size else encode_slow, size_slow in
      (match enc m with
       | MOk b -> ["ok"; hex_of_bytes b; hex_of_n (sz m)]
       | MErr _ -> ["err"; hex_of_n (sz m)])
  | _ -> failwith ("mset: unknown op " ^ op)

let () = register "mset" handle
