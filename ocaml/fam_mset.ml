(* family "mset" (C47): MessageSet item format, Unmarshal loop, unknown-section
   re-framing, fast and slow message-level decode/encode.
   Observation tokens must be produced exactly as harness/cmd/h/fam_mset.go prints them. *)
open Util
open BinNums
open MsetModel

let err (e : merr) : string list =
  match e with
  | MWire w -> ["e" ^ string_of_int (int_of_z (WireModel.werr_code w))]
  | MTypeId -> ["etypeid"]
  | MPayload -> ["epayload"]
  | MUnknownData -> ["eunknowndata"]
  | MFuel -> ["efuel"]
  | MImpossible -> ["eimpossible"]

let split c s = if s = "-" || s = "" then [] else String.split_on_char c s
let ids_of_tok s = Stdlib.List.map n_of_hex (split ',' s)
let n_len l = n_of_int (Stdlib.List.length l)

let exts_tok (star : coq_N list) (l : (coq_N * Byte.byte list) list) : string =
  if l = [] then "-" else
  String.concat ";" (Stdlib.List.map (fun (id, p) ->
    if Stdlib.List.mem id star then hex_of_n id ^ "=*" else hex_of_n id ^ "=" ^ hex_of_bytes p) l)

let exts_of_tok s : (coq_N * Byte.byte list) list =
  Stdlib.List.map (fun e ->
    match String.split_on_char '=' e with
    | [id; p] -> (n_of_hex id, bytes_of_hex p)
    | _ -> failwith ("bad ext token " ^ e)) (split ';' s)

let handle op args =
  match op, args with
  | "item", [id; p] ->
      let id = n_of_hex id and p = bytes_of_hex p in
      [hex_of_bytes (append_item id p); hex_of_n (size_item id (n_len p))]
  | "citem", [wl; b] ->
      let b = bytes_of_hex b in
      (match consume_item (bool_of_tok wl) b with
       | MOk ((id, m), r) ->
           ["ok"; hex_of_n id; hex_of_bytes m; string_of_int (Stdlib.List.length b - Stdlib.List.length r)]
       | MErr e -> err e)
  | "events", [wl; b] ->
      (match events (bool_of_tok wl) (bytes_of_hex b) with
       | MOk [] -> ["ok"; "-"]
       | MOk l -> ["ok"; String.concat "," (Stdlib.List.map (fun (id, v) -> hex_of_n id ^ ":" ^ hex_of_bytes v) l)]
       | MErr e -> err e)
  | "sizeunk", [u] -> [hex_of_n (size_unknown (bytes_of_hex u))]
  | "appunk", [u] ->
      (match append_unknown (bytes_of_hex u) with
       | MOk b -> ["ok"; hex_of_bytes b]
       | MErr _ -> ["err"])
  | "dec", [path; verb; strct; b] ->
      let verb = ids_of_tok verb and strct = ids_of_tok strct in
      let kn = kn_of (verb @ strct) in
      let dec = if path = "f" then decode_fast else decode_slow in
      (match dec kn payload_ok (bytes_of_hex b) mset_empty with
       | MOk m -> ["ok"; exts_tok strct m.m_ext; hex_of_bytes m.m_unknown]
       | MErr _ -> ["err"])
  | "enc", [path; exts; unk] ->
      let m = { m_ext = Stdlib.List.fold_left (fun acc (id, p) -> ext_merge id p acc) [] (exts_of_tok exts);
                m_unknown = bytes_of_hex unk } in
      let enc, sz = if path = "f" then encode, size else encode_slow, size_slow in
      (match enc m with
       | MOk b -> ["ok"; hex_of_bytes b; hex_of_n (sz m)]
       | MErr _ -> ["err"; hex_of_n (sz m)])
  | _ -> failwith ("mset: unknown op " ^ op)

let () = register "mset" handle
