(* family "nil": typed nil messages (C31).
   Observation tokens must be produced exactly as harness/cmd/h/fam_nil.go prints them. *)
open Util
open NilModel

let bytes_of_string s = Stdlib.List.init (String.length s) (fun i -> byte_of_int (Char.code s.[i]))
let string_of_bytes bs = String.concat "" (Stdlib.List.map (fun b -> String.make 1 (Char.chr (int_of_byte b))) bs)
let dec n = string_of_int (int_of_n n)

let parse_field s =
  match String.split_on_char ':' s with
  | [num; kind; req; oneof; def] ->
      { fnum = n_of_int (int_of_string num);
        fkind_of = (match kind with "s" -> KScalar | "m" -> KMessage | "l" -> KList | "p" -> KMap
                                    | _ -> failwith "nil: bad kind");
        fdefault = bytes_of_string def;
        frequired = bool_of_tok req;
        foneof = (if oneof = "-" then None else Some (n_of_int (int_of_string oneof))) }
  | _ -> failwith ("nil: bad field " ^ s)
let parse_schema s = if s = "-" then [] else Stdlib.List.map parse_field (String.split_on_char ';' s)

let nil_state : mstate = None
let empty_state : mstate = Some empty_msg
(* opaque codecs: any function will do, the model's answers do not depend on them *)
let enc _ _ = []
let render m = bytes_of_string (string_of_int (Stdlib.List.length m.present))

let value_tok v =
  match v with
  | VScalar t -> string_of_bytes t
  | VMessage b -> "m" ^ tok_of_bool b
  | VList n -> "l" ^ dec n
  | VMap n -> "p" ^ dec n

let mres_tok r =
  match r with
  | MErr n -> "req:" ^ dec n
  | MBuf (true, _) -> "nilbuf"
  | MBuf (false, b) -> "buf:" ^ hex_of_bytes b

let handle op args =
  match op, args with
  | "isvalid", [_] -> [tok_of_bool (is_valid nil_state)]
  | "has", [_; sch] ->
      ["h" ^ String.concat "" (Stdlib.List.map (fun f -> tok_of_bool (has nil_state f)) (parse_schema sch))]
  | "get", [_; sch] ->
      ["g" ^ String.concat "," (Stdlib.List.map (fun f -> value_tok (get nil_state f)) (parse_schema sch))]
  | "range", [_] -> [string_of_int (Stdlib.List.length (range nil_state))]
  | "oneof", [_; sch; n] ->
      let sch = parse_schema sch in
      ["o" ^ String.concat "," (Stdlib.List.init (int_of_string n) (fun i ->
         match which_oneof sch nil_state (n_of_int i) with None -> "-" | Some k -> dec k))]
  | "unknown", [_] -> [string_of_int (Stdlib.List.length (get_unknown nil_state))]
  | "desc", [_] -> ["same"]   (* Descriptor/Type/New are functions of the type, not of the pointer *)
  | "size", [_] -> [dec (size enc nil_state)]
  | "marshal", [_; sch; ap] -> [mres_tok (marshal enc (bool_of_tok ap) (parse_schema sch) nil_state)]
  | "marshaldet", [_; sch] ->
      (match marshal enc true (parse_schema sch) nil_state with
       | MBuf (_, b) -> ["len:" ^ string_of_int (Stdlib.List.length b)] | MErr _ -> ["err"])
  | "marshalappend", [_; sch; p] ->
      (match marshal_append enc (bytes_of_hex p) (parse_schema sch) nil_state with
       | Some b -> [hex_of_bytes b] | None -> ["err"])
  | "checkinit", [_; sch] ->
      (match check_init (parse_schema sch) nil_state with None -> ["ok"] | Some n -> ["req:" ^ dec n])
  | "equal", [_] ->
      let eqm _ _ = true in
      [tok_of_bool (equal eqm nil_state nil_state) ^ tok_of_bool (equal eqm nil_state (clone nil_state))
       ^ tok_of_bool (equal eqm nil_state empty_state) ^ tok_of_bool (equal eqm empty_state nil_state)]
  | "clone", [_] -> [tok_of_bool (is_valid (clone nil_state))]
  | "merge", [_] -> [if merge empty_msg nil_state = empty_msg then "same" else "changed"]
  | ("jsonformat" | "textformat"), [_] -> [hex_of_bytes (debug_format render nil_state)]
  | ("json" | "jsonstrict" | "jsonemit" | "text" | "textstrict" | "textemit"), [_] ->
      [if format render nil_state = format render empty_state then "same" else "differs"]
  | "getters", [_; _] -> ["same"]
  | _ -> failwith ("nil: unknown op " ^ op)

let () = register "nil" handle
