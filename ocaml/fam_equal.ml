(* family "equal" (C30): proto.Equal on canonical dumps, model Msg/EqualModel.v.
     equal <schema id> <value a> <value b>   | 0/1
   Both modelled algorithms (reflection: eqm_value, table-driven: eqm_fast) are run; the harness
   has already checked that the implementations agree, so a disagreement of the two models is
   reported as an observation that cannot match. *)
open Util

let zero = nat_of_int 0

let handle op args =
  match op, args with
  | "equal", id :: toks ->
    let s = Fam_msg.schema_of_id id in
    let (a, r) = Fam_msg.parse_value toks in
    let (b, r') = Fam_msg.parse_value r in
    if r' <> [] then failwith "equal: trailing tokens";
    let rf = EqualModel.eqm_equal s zero a b in
    let ft = EqualModel.eqm_fast s (MsgSchema.KMsg zero) a b in
    if rf <> ft then ["model:reflect=" ^ tok_of_bool rf ^ ",fast=" ^ tok_of_bool ft]
    else [tok_of_bool rf]
  | _ -> failwith ("equal: unknown op " ^ op)

let () = register "equal" handle
