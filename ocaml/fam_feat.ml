(* glue for family "feat" (C38): tokens <-> FeaturesModel *)
open Util
open FeaturesModel

let opt_n s = if s = "-" then None else Some (n_of_hex s)

(* takes 9 tokens *)
let parse_ov (ts : string list) : ovset * string list =
  match ts with
  | a :: b :: c :: d :: e :: f :: g :: h :: i :: rest ->
    ({ ov_presence = opt_n a; ov_enum = opt_n b; ov_repeated = opt_n c; ov_utf8 = opt_n d; ov_msgenc = opt_n e;
       ov_json = opt_n f; ov_golegacy = opt_n g; ov_api = opt_n h; ov_strip = opt_n i }, rest)
  | _ -> failwith "feat: short override set"

let rec parse_chain n ts acc =
  if n = 0 then (Stdlib.List.rev acc, ts)
  else let (o, rest) = parse_ov ts in parse_chain (n - 1) rest (o :: acc)

let efeat_tokens (e : efeat) : string list =
  [ hex_of_n e.ef_strip; tok_of_bool e.ef_presence; tok_of_bool e.ef_legacyreq; tok_of_bool e.ef_open; tok_of_bool e.ef_packed;
    tok_of_bool e.ef_utf8; tok_of_bool e.ef_delim; tok_of_bool e.ef_json; tok_of_bool e.ef_legacyjson; hex_of_n e.ef_api ]

let handle op args =
  match args with
  | _how :: syntax :: ed :: n :: rest ->
    let syntax = n_of_hex syntax and ed = n_of_hex ed in
    let (chain, rest) = parse_chain (int_of_n (n_of_hex n)) rest [] in
    (match op, rest with
     | "resolve", [kind] ->
       (match resolve ed chain with
        | None -> ["unsupported-edition"]
        | Some e -> efeat_tokens e @ (if kind = "enum" then [tok_of_bool (enum_closed e)] else []))
     | "field", _ ->
       let (own, rest) = parse_ov rest in
       (match rest with
        | [label; ty; po; inoneof; isext; mapish] ->
          let fi = { fi_label = n_of_hex label; fi_type = n_of_hex ty;
                     fi_packedopt = (if po = "-" then None else Some (bool_of_tok po));
                     fi_in_oneof = bool_of_tok inoneof; fi_is_ext = bool_of_tok isext; fi_mapish = bool_of_tok mapish } in
          (match resolve_field false syntax ed chain own fi with
           | None -> ["unsupported-edition"]
           | Some (e, r) ->
             efeat_tokens e @ [hex_of_n r.fr_card; hex_of_n r.fr_kind; tok_of_bool r.fr_presence; tok_of_bool r.fr_packed; tok_of_bool r.fr_utf8])
        | _ -> failwith "feat: bad field tokens")
     | _ -> failwith ("feat: unknown op " ^ op))
  | _ -> failwith "feat: short line"

let () = register "feat" handle
