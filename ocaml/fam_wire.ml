(* family "wire": encoding/protowire primitives and the field scanner.
   Observation tokens must be produced exactly as harness/cmd/h/fam_wire.go prints them. *)
open Util
open WireModel

let err e = ["e" ^ string_of_int (int_of_z (werr_code e))]
let consumed ins rest = string_of_int (Stdlib.List.length ins - Stdlib.List.length rest)

(* ---- Tier T: the functions translated from wire.go by srcmodel (Gen/WireGo.v).
   Integers are Z, byte strings are Z lists; [n] results print like the harness
   prints Go's (negative = error code). ---- *)
let zs_of_hex s = Stdlib.List.map (fun b -> z_of_int (int_of_byte b)) (bytes_of_hex s)
let hex_of_zs (zs : BinNums.coq_Z list) : string =
  let b = Buffer.create 64 in
  Buffer.add_char b 'x';
  Stdlib.List.iter (fun z -> let i = int_of_z z in
                     if i < 0 || i > 255 then Buffer.add_string b "??" else Buffer.add_string b (Printf.sprintf "%02x" i)) zs;
  Buffer.contents b
let zlen l = z_of_int (Stdlib.List.length l)
let lenres n ok = let i = int_of_z n in if i < 0 then ["e" ^ string_of_int i] else ok (string_of_int i)
let nilz : BinNums.coq_Z list = []

let go_handle op args =
  let open WireGo in
  match op, args with
  | "go_varint", [v] -> let v = z_of_hex v in [hex_of_zs (go_AppendVarint nilz v); hex_of_z (go_SizeVarint v)]
  | "go_cvarint", [b] ->
      (match go_ConsumeVarint (zs_of_hex b) with
       | GoInt.Val (v, n) -> lenres n (fun n -> ["ok"; hex_of_z v; n]) | GoInt.Panic -> ["panic"] | GoInt.Fuel -> ["fuel"])
  | "go_fixed32", [v] -> [hex_of_zs (go_AppendFixed32 nilz (z_of_hex v))]
  | "go_fixed64", [v] -> [hex_of_zs (go_AppendFixed64 nilz (z_of_hex v))]
  | "go_cfixed32", [b] ->
      (match go_ConsumeFixed32 (zs_of_hex b) with
       | GoInt.Val (v, n) -> lenres n (fun n -> ["ok"; hex_of_z v; n]) | GoInt.Panic -> ["panic"] | GoInt.Fuel -> ["fuel"])
  | "go_cfixed64", [b] ->
      (match go_ConsumeFixed64 (zs_of_hex b) with
       | GoInt.Val (v, n) -> lenres n (fun n -> ["ok"; hex_of_z v; n]) | GoInt.Panic -> ["panic"] | GoInt.Fuel -> ["fuel"])
  | "go_zz", [x] -> [hex_of_z (go_EncodeZigZag (z_of_hex x))]
  | "go_unzz", [n] -> [hex_of_z (go_DecodeZigZag (z_of_hex n))]
  | "go_bool", [b] -> [hex_of_z (go_EncodeBool (bool_of_tok b))]
  | "go_unbool", [n] -> [tok_of_bool (go_DecodeBool (z_of_hex n))]
  | "go_etag", [num; typ] -> [hex_of_z (go_EncodeTag (z_of_hex num) (z_of_hex typ))]
  | "go_dtag", [x] -> let (num, typ) = go_DecodeTag (z_of_hex x) in [hex_of_z num; hex_of_z typ]
  | "go_tag", [num; typ] -> let num = z_of_hex num in
      [hex_of_zs (go_AppendTag nilz num (z_of_hex typ)); hex_of_z (go_SizeTag num)]
  | "go_ctag", [b] ->
      (match go_ConsumeTag (zs_of_hex b) with
       | GoInt.Val ((num, typ), n) -> lenres n (fun n -> ["ok"; hex_of_z num; hex_of_z typ; n]) | GoInt.Panic -> ["panic"] | GoInt.Fuel -> ["fuel"])
  | "go_bytes", [v] -> let v = zs_of_hex v in [hex_of_zs (go_AppendBytes nilz v); hex_of_z (go_SizeBytes (zlen v))]
  | "go_cbytes", [b] ->
      (match go_ConsumeBytes (zs_of_hex b) with
       | GoInt.Val (v, n) -> lenres n (fun n -> ["ok"; hex_of_zs v; n]) | GoInt.Panic -> ["panic"] | GoInt.Fuel -> ["fuel"])
  | "go_agroup", [num; v] -> let num = z_of_hex num and v = zs_of_hex v in
      [hex_of_zs (go_AppendGroup nilz num v); hex_of_z (go_SizeGroup num (zlen v))]
  (* the functions with loops / recursion (fuel-indexed fixpoints in Gen/WireGo.v) *)
  | "go_cfv", [num; typ; b] ->
      (match go_ConsumeFieldValue (z_of_hex num) (z_of_hex typ) (zs_of_hex b) with
       | GoInt.Val n -> lenres n (fun n -> ["ok"; n]) | GoInt.Panic -> ["panic"] | GoInt.Fuel -> ["fuel"])
  | "go_cfield", [b] ->
      (match go_ConsumeField (zs_of_hex b) with
       | GoInt.Val ((num, typ), n) -> lenres n (fun n -> ["ok"; hex_of_z num; hex_of_z typ; n])
       | GoInt.Panic -> ["panic"] | GoInt.Fuel -> ["fuel"])
  | "go_cgroup", [num; b] ->
      (match go_ConsumeGroup (z_of_hex num) (zs_of_hex b) with
       | GoInt.Val (v, n) -> lenres n (fun n -> ["ok"; hex_of_zs v; n])
       | GoInt.Panic -> ["panic"] | GoInt.Fuel -> ["fuel"])
  | _ -> failwith ("wire: unknown op " ^ op)

let handle op args =
  match op, args with
  | "varint", [v] -> let v = n_of_hex v in [hex_of_bytes (enc_varint v); hex_of_n (size_varint v)]
  | "cvarint", [b] -> let b = bytes_of_hex b in
      (match dec_varint b with Ok (v, r) -> ["ok"; hex_of_n v; consumed b r] | Err e -> err e)
  | "fixed32", [v] -> [hex_of_bytes (enc_fixed32 (n_of_hex v))]
  | "fixed64", [v] -> [hex_of_bytes (enc_fixed64 (n_of_hex v))]
  | "cfixed32", [b] -> let b = bytes_of_hex b in
      (match dec_fixed32 b with Ok (v, r) -> ["ok"; hex_of_n v; consumed b r] | Err e -> err e)
  | "cfixed64", [b] -> let b = bytes_of_hex b in
      (match dec_fixed64 b with Ok (v, r) -> ["ok"; hex_of_n v; consumed b r] | Err e -> err e)
  | "zz", [x] -> [hex_of_n (zz_enc (z_of_hex x))]
  | "unzz", [n] -> [hex_of_z (zz_dec (n_of_hex n))]
  | "bool", [b] -> [hex_of_n (enc_bool (bool_of_tok b))]
  | "unbool", [n] -> [tok_of_bool (dec_bool (n_of_hex n))]
  | "etag", [num; typ] -> [hex_of_n (encode_tag (n_of_hex num) (n_of_hex typ))]
  | "dtag", [x] -> (match decode_tag (n_of_hex x) with
                    | Some (num, typ) -> [hex_of_n num; hex_of_n typ] | None -> ["-1"; "0"])
  | "tag", [num; typ] -> let num = n_of_hex num in
      [hex_of_bytes (enc_tag num (n_of_hex typ)); hex_of_n (size_tag num)]
  | "ctag", [b] -> let b = bytes_of_hex b in
      (match dec_tag b with Ok ((num, typ), r) -> ["ok"; hex_of_n num; hex_of_n typ; consumed b r] | Err e -> err e)
  | "bytes", [v] -> let v = bytes_of_hex v in
      [hex_of_bytes (enc_bytes v); hex_of_n (size_bytes (n_of_int (Stdlib.List.length v)))]
  | "cbytes", [b] -> let b = bytes_of_hex b in
      (match dec_bytes b with Ok (v, r) -> ["ok"; hex_of_bytes v; consumed b r] | Err e -> err e)
  | "cfv", [num; typ; b] ->
      (match consume_field_value (n_of_hex num) (n_of_hex typ) (bytes_of_hex b) with
       | Ok n -> ["ok"; string_of_int (int_of_n n)] | Err e -> err e)
  | "cfield", [b] ->
      (match consume_field (bytes_of_hex b) with
       | Ok ((num, typ), n) -> ["ok"; hex_of_n num; hex_of_n typ; string_of_int (int_of_n n)] | Err e -> err e)
  | "cgroup", [num; b] ->
      (match consume_group (n_of_hex num) (bytes_of_hex b) with
       | Ok (Some v, n) -> ["ok"; hex_of_bytes v; string_of_int (int_of_n n)]
       | Ok (None, n) -> ["panic"]
       | Err e -> err e)
  | "agroup", [num; v] -> let num = n_of_hex num and v = bytes_of_hex v in
      [hex_of_bytes (append_group num v); hex_of_n (size_group num (n_of_int (Stdlib.List.length v)))]
  | "perr", [n] -> [string_of_int (int_of_n (perr_class (parse_error (z_of_hex n))))]
  | _ -> go_handle op args

let () = register "wire" handle
