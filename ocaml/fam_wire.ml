(* family "wire": encoding/protowire primitives and the field scanner.
   Observation tokens must be produced exactly as harness/cmd/h/fam_wire.go prints them. *)
open Util
open WireModel

let err e = ["e" ^ string_of_int (int_of_z (werr_code e))]
let consumed ins rest = string_of_int (Stdlib.List.length ins - Stdlib.List.length rest)

let handle op args =
  match op, args with
  | "varint", [v] -> let v = n_of_hex v in [hex_of_bytes (enc_varint v); hex_of_n (size_varint v)]
  | "cvarint", [b] -> let b = bytes_of_hex b in
      (match dec_varint b with Ok (v, r) -> ["ok"; hex_of_n v; consumed b r] | Err e -> err e)
  | "fixed32", [v] -> [hex_of_bytes (enc_fixed32 (n_of_hex v))]
  | "fixed64", [v] -> [hex_of_bytes (enc_fixed64 (n_of_hex v))]
  | "cfixed32", [b] -> let b = bytes_of_hex b in
      (match dec_fixed32 b with Ok (v, r) -> ["ok"; hex_of_n v; consumed b r] | Err e -> err e)
  | "cfixed64", [b] -> let b = bytes_of_hex b in
      (match dec_fixed64 b with Ok (v, r) -> ["ok"; hex_of_n v; consumed b r] | Err e -> err e)
  | "zz", [x] -> [hex_of_n (zz_enc (z_of_hex x))]
  | "unzz", [n] -> [hex_of_z (zz_dec (n_of_hex n))]
  | "bool", [b] -> [hex_of_n (enc_bool (bool_of_tok b))]
  | "unbool", [n] -> [tok_of_bool (dec_bool (n_of_hex n))]
  | "etag", [num; typ] -> [hex_of_n (encode_tag (n_of_hex num) (n_of_hex typ))]
  | "dtag", [x] -> (match decode_tag (n_of_hex x) with
                    | Some (num, typ) -> [hex_of_n num; hex_of_n typ] | None -> ["-1"; "0"])
  | "tag", [num; typ] -> let num = n_of_hex num in
      [hex_of_bytes (enc_tag num (n_of_hex typ)); hex_of_n (size_tag num)]
  | "ctag", [b] -> let b = bytes_of_hex b in
      (match dec_tag b with Ok ((num, typ), r) -> ["ok"; hex_of_n num; hex_of_n typ; consumed b r] | Err e -> err e)
  | "bytes", [v] -> let v = bytes_of_hex v in
      [hex_of_bytes (enc_bytes v); hex_of_n (size_bytes (n_of_int (Stdlib.List.length v)))]
  | "cbytes", [b] -> let b = bytes_of_hex b in
      (match dec_bytes b with Ok (v, r) -> ["ok"; hex_of_bytes v; consumed b r] | Err e -> err e)
  | "cfv", [num; typ; b] ->
      (match consume_field_value (n_of_hex num) (n_of_hex typ) (bytes_of_hex b) with
       | Ok n -> ["ok"; string_of_int (int_of_n n)] | Err e -> err e)
  | "cfield", [b] ->
      (match consume_field (bytes_of_hex b) with
       | Ok ((num, typ), n) -> ["ok"; hex_of_n num; hex_of_n typ; string_of_int (int_of_n n)] | Err e -> err e)
  | "cgroup", [num; b] ->
      (match consume_group (n_of_hex num) (bytes_of_hex b) with
       | Ok (Some v, n) -> ["ok"; hex_of_bytes v; string_of_int (int_of_n n)]
       | Ok (None, n) -> ["panic"]
       | Err e -> err e)
  | "agroup", [num; v] -> let num = n_of_hex num and v = bytes_of_hex v in
      [hex_of_bytes (append_group num v); hex_of_n (size_group num (n_of_int (Stdlib.List.length v)))]
  | _ -> failwith ("wire: unknown op " ^ op)

let () = register "wire" handle
