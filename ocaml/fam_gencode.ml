(* family "gencode": naming of generated files (C41); everything else in that family is decided by
   the Go toolchain and reported through P lines. *)
open Util
open GenFileModel

let handle op args =
  match op, args with
  | "genname", [mode; ip; name; variant] ->
      [hex_of_bytes (gen_filename (bool_of_tok mode) (bytes_of_hex ip) (bytes_of_hex name) (bool_of_tok variant))]
  | "respname", [m; fn] ->
      (match response_name (bytes_of_hex m) (bytes_of_hex fn) with
       | Some s -> ["ok"; hex_of_bytes s]
       | None -> ["err"])
  | "pathext", [s] -> [hex_of_bytes (path_ext (bytes_of_hex s))]
  | "pathbase", [s] -> [hex_of_bytes (path_base (bytes_of_hex s))]
  | _ -> failwith ("gencode: unknown op " ^ op)

let () = register "gencode" handle
