(* family "msg": the message codec model (Msg/*.v) — C03, C04 and the later message properties.

   Token formats (must agree with harness/cmd/h/common_msg.go):
     schema  : <ntypes> then per type  M<k> followed by k field tokens
               field token  num:kind:card:oneof:flags:tid:kk:kutf8:vdef
                 num hex | kind = protoreflect.Kind (for maps: of the value) | card 0 opt 1 implicit
                 2 required 3 repeated 4 packed 5 map | oneof -1 or index of the real oneof |
                 flags bit0 enforce-utf8 (maps: of the value) bit1 extension bit2 lazy |
                 tid index of the message type (message/group kinds) | kk key kind (maps) |
                 kutf8 0/1 | vdef default enum number of the map value (HexZ)
     value   : M <nfields> (<num hex> <nvals> <val>...)... <unknown xhex>
               val = z<HexZ> | n<HexN> | b0 | b1 | x<hex> | M... | E <key> <val>
   Ops:
     schema <id> <name> <schema tokens>          | ok            (stored; later ops refer to <id>)
     enc <id> <tid> <f|s> <value>                | ok <xbytes> <size hex> <v1|v0: msg_valid>  or  utf8
     dec <id> <tid> <f|s> <limit hex> <xbytes>   | ok <value>  or  e<code> (1 parse 2 depth 3 utf8)
   Other families may call [Fam_msg.schema_of_id], [parse_value], [value_tokens]. *)
open Util
open MsgSchema
open MsgValue

let schemas : (string, schema) Hashtbl.t = Hashtbl.create 64
let schema_of_id id = try Hashtbl.find schemas id with Not_found -> failwith ("msg: unknown schema id " ^ id)

let skind_of_int = function
  | 1 -> SkDouble | 2 -> SkFloat | 3 -> SkInt64 | 4 -> SkUint64 | 5 -> SkInt32 | 6 -> SkFixed64
  | 7 -> SkFixed32 | 8 -> SkBool | 9 -> SkString | 12 -> SkBytes | 13 -> SkUint32 | 14 -> SkEnum
  | 15 -> SkSfixed32 | 16 -> SkSfixed64 | 17 -> SkSint32 | 18 -> SkSint64
  | k -> failwith ("msg: bad scalar kind " ^ string_of_int k)
let kind_of_int k tid =
  if k = 11 then KMsg (nat_of_int tid) else if k = 10 then KGrp (nat_of_int tid) else KS (skind_of_int k)

let parse_field (tok : string) : fdesc =
  match String.split_on_char ':' tok with
  | [num; kind; card; oneof; flags; tid; kk; kutf8; vdef] ->
    let flags = int_of_string flags in
    let card = match int_of_string card with
      | 0 -> COpt | 1 -> CImp | 2 -> CReq | 3 -> CRep | 4 -> CPacked
      | 5 -> CMap (skind_of_int (int_of_string kk), kutf8 = "1", z_of_hex vdef)
      | c -> failwith ("msg: bad cardinality " ^ string_of_int c) in
    let oneof = int_of_string oneof in
    { f_num = n_of_hex num; f_kind = kind_of_int (int_of_string kind) (int_of_string tid); f_card = card;
      f_oneof = (if oneof < 0 then None else Some (n_of_int oneof));
      f_utf8 = flags land 1 <> 0; f_ext = flags land 2 <> 0; f_lazy = flags land 4 <> 0 }
  | _ -> failwith ("msg: bad field token " ^ tok)

let parse_schema (toks : string list) : schema =
  match toks with
  | [] -> failwith "msg: empty schema"
  | n :: rest ->
    let n = int_of_string n in
    let rec types k toks acc =
      if k = 0 then (if toks <> [] then failwith "msg: trailing schema tokens"; Stdlib.List.rev acc)
      else match toks with
        | m :: r when String.length m > 0 && m.[0] = 'M' ->
          let nf = int_of_string (String.sub m 1 (String.length m - 1)) in
          let rec fs j toks acc =
            if j = 0 then (Stdlib.List.rev acc, toks)
            else match toks with t :: r -> fs (j - 1) r (parse_field t :: acc) | [] -> failwith "msg: short schema" in
          let (fl, r') = fs nf r [] in
          types (k - 1) r' (fl :: acc)
        | _ -> failwith "msg: bad schema tokens" in
    types n rest []

let tail s = String.sub s 1 (String.length s - 1)
let parse_scalar (t : string) : scalar =
  match t.[0] with
  | 'z' -> SZ (z_of_hex (tail t))
  | 'n' -> SN (n_of_hex (tail t))
  | 'b' -> SB (t = "b1")
  | 'x' -> SBy (bytes_of_hex t)
  | _ -> failwith ("msg: bad scalar token " ^ t)

(* returns (value, remaining tokens) *)
let rec parse_value (toks : string list) : value * string list =
  match toks with
  | "M" :: nf :: rest ->
    let rec fields k toks acc =
      if k = 0 then (Stdlib.List.rev acc, toks)
      else match toks with
        | num :: nv :: r ->
          let rec vals j toks acc =
            if j = 0 then (Stdlib.List.rev acc, toks)
            else let (v, r) = parse_value toks in vals (j - 1) r (v :: acc) in
          let (vs, r') = vals (int_of_string nv) r [] in
          fields (k - 1) r' ((n_of_hex num, vs) :: acc)
        | _ -> failwith "msg: short value" in
    let (fs, r) = fields (int_of_string nf) rest [] in
    (match r with
     | u :: r' -> (VMsg (fs, bytes_of_hex u), r')
     | [] -> failwith "msg: missing unknown token")
  | "E" :: k :: rest -> let (v, r) = parse_value rest in (VEntry (parse_scalar k, v), r)
  | t :: rest -> (VS (parse_scalar t), rest)
  | [] -> failwith "msg: empty value"

let scalar_token = function
  | SZ z -> "z" ^ hex_of_z z
  | SN n -> "n" ^ hex_of_n n
  | SB b -> if b then "b1" else "b0"
  | SBy b -> hex_of_bytes b

let value_tokens (v : value) : string list =
  let out = ref [] in
  let add s = out := s :: !out in
  let rec go v = match v with
    | VS s -> add (scalar_token s)
    | VEntry (k, v') -> add "E"; add (scalar_token k); go v'
    | VMsg (fs, u) ->
      add "M"; add (string_of_int (Stdlib.List.length fs));
      Stdlib.List.iter (fun (num, vs) ->
          add (hex_of_n num); add (string_of_int (Stdlib.List.length vs)); Stdlib.List.iter go vs) fs;
      add (hex_of_bytes u) in
  go v; Stdlib.List.rev !out

(* Observation canonicalisation.  protoreflect.Value holds a float32 as a float64, and the
   float32 -> float64 conversion turns a signalling NaN into a quiet one, so no dump made through
   the reflection API (and no dynamicpb message) can show the signalling payload of a decoded
   float32.  The decoded model value is projected the same way before it is printed. *)
let quiet32 (n : BinNums.coq_N) : BinNums.coq_N =
  let i = int_of_n n in
  if i land 0x7f800000 = 0x7f800000 && i land 0x007fffff <> 0 then n_of_int (i lor 0x00400000) else n
let rec canon_value (s : schema) (tid : Datatypes.nat) (v : value) : value =
  match v with
  | VMsg (fs, u) ->
    let md = Stdlib.List.nth_opt s (int_of_nat tid) in
    let md = match md with Some m -> m | None -> [] in
    let field (num, vs) =
      match MsgSchema.msg_find_field md num with
      | None -> (num, vs)
      | Some fd ->
        let elem v = match fd.f_kind, v with
          | KS SkFloat, VS (SN n) -> VS (SN (quiet32 n))
          | (KMsg t | KGrp t), VMsg _ -> canon_value s t v
          | _, _ -> v in
        let one v = match v with
          | VEntry (k, v') -> VEntry (k, elem v')
          | _ -> elem v in
        (num, Stdlib.List.map one vs) in
    VMsg (Stdlib.List.map field fs, u)
  | _ -> v

let nat_cache : (int, Datatypes.nat) Hashtbl.t = Hashtbl.create 8
let nat_cached i = match Hashtbl.find_opt nat_cache i with
  | Some n -> n | None -> let n = nat_of_int i in Hashtbl.replace nat_cache i n; n

let handle op args =
  match op, args with
  | "schema", id :: _name :: toks -> Hashtbl.replace schemas id (parse_schema toks); ["ok"]
  | "enc", id :: tid :: mode :: toks ->
    let s = schema_of_id id and tid = nat_cached (int_of_string tid) in
    let (v, _) = parse_value toks in
    if not (MsgEnc.msg_enc_utf8_ok (mode = "s") s tid v) then ["utf8"]
    else ["ok"; hex_of_bytes (MsgEnc.msg_encode s tid v); hex_of_n (MsgEnc.msg_size_body s tid v);
          (* the canonical-value predicate of the C03 theorem holds of what the implementation holds *)
          if MsgValid.msg_valid (mode = "s") s (nat_cached 10000) tid v then "v1" else "v0"]
  | "dec", [id; tid; mode; limit; b] ->
    let s = schema_of_id id and tid = nat_cached (int_of_string tid) in
    (match MsgDec.msg_decode (mode = "s") s (nat_cached (int_of_n (n_of_hex limit))) tid (bytes_of_hex b) with
     | MsgDec.DOk v -> "ok" :: value_tokens (canon_value s tid v)
     | MsgDec.DErr e -> ["e" ^ string_of_int (int_of_n (MsgDec.derr_code e))])
  | _ -> failwith ("msg: unknown op " ^ op)

(* deeply nested inputs (10000 levels) recurse deeply in the extracted model; a larger minor heap
   keeps the number of stack scans by the minor collector small *)
let () = Gc.set { (Gc.get ()) with Gc.minor_heap_size = 8 * 1024 * 1024 }

let () = register "msg" handle
