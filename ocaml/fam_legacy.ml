(* family "legacy" (C46): the struct-tag codec internal/encoding/tag.
   Observation tokens must be produced exactly as harness/cmd/h/fam_legacy_tag.go prints them. *)
open Util
open TagModel

let opt_bytes s = if s = "-" then None else Some (bytes_of_hex s)

let gokind_of_tok = function
  | "bool" -> GBool | "int32" -> GInt32 | "int64" -> GInt64 | "uint32" -> GUint32 | "uint64" -> GUint64
  | "float32" -> GFloat32 | "float64" -> GFloat64 | "string" -> GString | "bytes" -> GBytes
  | "other" -> GOther
  | s -> failwith ("legacy: bad gokind " ^ s)

let handle op args =
  match op, args with
  | "tag", [kind; number; card; packed; name; msgname; json; ext; proto3; enum; oneof; def] ->
      let f = { f_kind = n_of_hex kind; f_number = z_of_hex number; f_card = n_of_hex card;
                f_packed = bool_of_tok packed; f_name = bytes_of_hex name;
                f_msgname = (match opt_bytes msgname with Some b -> b | None -> []);
                f_json = bytes_of_hex json; f_ext = bool_of_tok ext; f_proto3 = bool_of_tok proto3;
                f_enum = bytes_of_hex enum; f_oneof = bool_of_tok oneof; f_def = opt_bytes def } in
      [hex_of_bytes (marshal f)]
  | "untag", [gk; dflag; tag] ->
      let u = unmarshal (gokind_of_tok gk) (bytes_of_hex tag) in
      let dflag = bool_of_tok dflag in
      let hasdef, def =
        if not dflag then "?", "-"
        else match u.u_def with
          | None -> "0", "-"
          | Some d -> "1", (if int_of_n u.u_kind = 9 then hex_of_bytes d else "-") in
      [hex_of_bytes u.u_name; hex_of_z u.u_number; hex_of_n u.u_card; hex_of_n u.u_kind;
       tok_of_bool (match u.u_json with Some _ -> true | None -> false); hex_of_bytes (u_json_name u);
       tok_of_bool (u_is_packed u); tok_of_bool u.u_proto3; hasdef; def]
  | "derive", [shape; gk; parent; tag] ->
      let gk = gokind_of_tok gk in
      let sh = (match shape with "p" -> ShPtr gk | "s" -> ShSlice gk | "v" -> ShPlain gk
                | s -> failwith ("legacy: bad shape " ^ s)) in
      let tag = bytes_of_hex tag in
      let u = derive_field (bytes_of_hex parent) sh tag in
      [hex_of_bytes u.u_name; hex_of_z u.u_number; hex_of_n u.u_card; hex_of_n u.u_kind;
       hex_of_bytes (u_json_name u); tok_of_bool (u_is_packed u);
       tok_of_bool (derive_msg_proto3 sh tag); tok_of_bool (u_has_presence u)]
  | _ -> failwith ("legacy: unknown op " ^ op)

let () = register "legacy" handle
