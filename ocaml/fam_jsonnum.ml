(* family "jsonnum": Tier T for C21 -- the functions translated from
   internal/encoding/json/decode_number.go by srcmodel_jsonnum (Gen/JsonNumGo.v), run against
   the real Go functions.  Integers are Z, byte strings are Z lists.
   Observation tokens must be produced exactly as harness/cmd/h/fam_jsonnum.go prints them. *)
open Util

let jn_zs_of_hex s = Stdlib.List.map (fun b -> z_of_int (int_of_byte b)) (bytes_of_hex s)

let handle op args =
  match op, args with
  | "go_isnotdelim", [c] -> [tok_of_bool (JsonNumGo.go_isNotDelim (z_of_int (int_of_string c)))]
  | "go_parsenum", [b] ->
      (match JsonNumGo.go_parseNumber (jn_zs_of_hex b) with
       | GoInt.Val (n, ok) -> [string_of_int (int_of_z n); tok_of_bool ok]
       | GoInt.Panic -> ["panic"]
       | GoInt.Fuel -> ["fuel"])
  | _ -> failwith ("jsonnum: unknown op " ^ op)

let () = Util.register "jsonnum" handle
