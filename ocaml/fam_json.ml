(* families "json" (C21) and "jsonv" (C22): internal/encoding/json tokenizer/encoder and the
   protojson scalar layer.  Observation tokens exactly as harness/cmd/h/fam_json.go prints them. *)
open Util
open JsonLexModel

let kind_char (t : token) = match t.t_kind with
  | KNull -> "n" | KBool -> if t.t_boo then "t" else "f" | KNumber -> "N" | KString -> "s" | KName -> "k"
  | KObjOpen -> "{" | KObjClose -> "}" | KArrOpen -> "[" | KArrClose -> "]" | KEOF -> "E" | _ -> "?"

let err_obs orig (e : jerr) = match e with
  | EUnexpectedEOF -> ["eof"; "0"; "0"]
  | EFuel -> ["fuel"; "0"; "0"]
  | ESyntax (code, pos) ->
    let (l, c) = position orig pos in
    ["e" ^ string_of_int (int_of_n code); string_of_int (int_of_n l); string_of_int (int_of_n c)]

let tokens b =
  let (toks, e) = read_all b in
  let buf = Buffer.create 64 in
  Buffer.add_char buf 'T';
  Stdlib.List.iter (fun t ->
    Buffer.add_string buf (Printf.sprintf "%s%d:%d," (kind_char t) (int_of_nat t.t_pos) (Stdlib.List.length t.t_raw))) toks;
  Buffer.contents buf :: (match e with None -> ["ok"; "0"; "0"] | Some e -> err_obs b e)

let str_case b =
  match read (d_init b) with
  | Err e -> [Stdlib.List.hd (err_obs b e); "x"; "0"]
  | Ok (t, _) ->
    (match t.t_kind with
     | KString -> ["ok"; hex_of_bytes t.t_str; string_of_int (Stdlib.List.length t.t_raw)]
     | _ -> ["notstring"; "x"; "0"])

let parse_call (s : string) : JsonEncModel.ecall =
  let rest () = String.sub s 1 (String.length s - 1) in
  match s.[0] with
  | 'n' -> JsonEncModel.CNull | 't' -> JsonEncModel.CBool true | 'f' -> JsonEncModel.CBool false
  | 's' -> JsonEncModel.CString (bytes_of_hex (rest ())) | 'k' -> JsonEncModel.CName (bytes_of_hex (rest ()))
  | 'i' -> JsonEncModel.CInt (z_of_hex (rest ())) | 'u' -> JsonEncModel.CUint (n_of_hex (rest ()))
  | '{' -> JsonEncModel.CStartObj | '}' -> JsonEncModel.CEndObj
  | '[' -> JsonEncModel.CStartArr | ']' -> JsonEncModel.CEndArr
  | _ -> failwith ("json: bad call " ^ s)

let pj_obs show r = match r with
  | JsonScalarModel.PJErr -> ["err"] | JsonScalarModel.PJUnset -> ["unset"] | JsonScalarModel.PJSet v -> ["ok"; show v]

let rec pairs l = match l with
  | n :: v :: r -> (bytes_of_hex n, z_of_hex v) :: pairs r
  | _ -> []

let handle op args =
  match op, args with
  | "tokens", [b] -> tokens (bytes_of_hex b)
  | "valid", [b] -> [tok_of_bool (JsonGrammar.is_json (bytes_of_hex b))]
  | "str", [b] -> str_case (bytes_of_hex b)
  | "encstr", [s] ->
    let (o, ok) = JsonEncModel.append_string (bytes_of_hex s) in [hex_of_bytes o; tok_of_bool ok]
  | "enc", indent :: rnd :: calls ->
    let r = bool_of_tok rnd in
    let (e, ok) = JsonEncModel.enc_calls (fun _ -> r) (Stdlib.List.map parse_call calls)
        (JsonEncModel.e_init (bytes_of_hex indent)) in
    [hex_of_bytes e.JsonEncModel.e_out; tok_of_bool ok]
  | "int", [bits; signed; doc] ->
    let bits = n_of_int (int_of_string bits) and doc = bytes_of_hex doc in
    if bool_of_tok signed then pj_obs hex_of_z (JsonScalarModel.pj_int bits doc)
    else pj_obs hex_of_n (JsonScalarModel.pj_uint bits doc)
  | "tokint", [bits; signed; lit] ->
    let bits = n_of_int (int_of_string bits) and lit = bytes_of_hex lit in
    (match read (d_init lit) with
     | Ok (t, _) when t.t_kind = KNumber ->
       if bool_of_tok signed then
         (match JsonNumModel.token_int bits t.t_raw with Some v -> ["ok"; hex_of_z v] | None -> ["no"])
       else
         (match JsonNumModel.token_uint bits t.t_raw with Some v -> ["ok"; hex_of_n v] | None -> ["no"])
     | _ -> ["notnumber"])
  | "bytes", [doc] -> pj_obs hex_of_bytes (JsonScalarModel.pj_bytes (bytes_of_hex doc))
  | "mbytes", [b] ->
    let (e, _) = JsonEncModel.enc_call (fun _ -> false) (JsonScalarModel.marshal_bytes (bytes_of_hex b)) (JsonEncModel.e_init []) in
    [hex_of_bytes e.JsonEncModel.e_out]
  | "mint", [bits; signed; v] ->
    let bits = n_of_int (int_of_string bits) in
    let call = if bool_of_tok signed then JsonScalarModel.marshal_int bits (z_of_hex v)
      else JsonScalarModel.marshal_uint bits (n_of_hex v) in
    let (e, _) = JsonEncModel.enc_call (fun _ -> false) call (JsonEncModel.e_init []) in
    [hex_of_bytes e.JsonEncModel.e_out]
  | "enum", discard :: doc :: table ->
    pj_obs hex_of_z (JsonScalarModel.pj_enum (pairs table) (bool_of_tok discard) (bytes_of_hex doc))
  | _ -> failwith ("json: unknown op " ^ op)

let () = register "json" handle; register "jsonv" handle
