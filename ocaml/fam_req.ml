(* family "req" (C10): Msg/InitModel.v.  Schemas are stored by family msg.
   Ops:
     ni   <id> <0|1 per type index>   | ok        needsInitCheck oracle of the schema's types (stored)
     chk  <id> <value>                | 0|1       msg_check_init (root type 0)
     flag <id> <xbytes>               | 0|1       msg_init_flag (table-driven eager decoder, default recursion limit) *)
open Util

let nis : (string, bool array) Hashtbl.t = Hashtbl.create 64
let ni_of id =
  let a = try Hashtbl.find nis id with Not_found -> failwith ("req: no ni line for schema " ^ id) in
  fun (t : Datatypes.nat) -> let i = int_of_nat t in i < Array.length a && a.(i)

let limit = Fam_msg.nat_cached 10000
let zero = Fam_msg.nat_cached 0
let tok b = if b then "1" else "0"

let handle op args =
  match op, args with
  | "ni", id :: bits -> Hashtbl.replace nis id (Array.of_list (Stdlib.List.map (fun s -> s = "1") bits)); ["ok"]
  | "chk", id :: toks ->
    let (v, _) = Fam_msg.parse_value toks in
    [tok (InitModel.msg_check_init (Fam_msg.schema_of_id id) zero v)]
  | "flag", [id; b] ->
    (match InitModel.msg_init_flag (Fam_msg.schema_of_id id) (ni_of id) limit zero (bytes_of_hex b) with
     | MsgDec.DOk f -> [tok f]
     | MsgDec.DErr e -> ["e" ^ string_of_int (int_of_n (MsgDec.derr_code e))])
  | _ -> failwith ("req: unknown op " ^ op)

let () = register "req" handle
