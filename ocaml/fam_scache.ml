(* family "scache" (C16): re-runs an abstract history on Msg/SizeCacheModel.v.
   Tokens must be produced exactly as harness/cmd/h/fam_scache.go prints them.

   tree  ::= '(' cachehex { ',' item } ')'
   item  ::= 'r' lenhex | 'l' taglen tree | 'g' taglen tree | 'm' taglen '.' keylenhex tree
           | 'x' taglen tree (KLenM: extension message) | 'y' taglen tree (KGroupM: extension group)
   op    ::= 'S' path ';' idx ';' item | 'L' path ';' idx ';' item (a lazy child seen decoded; OSet, no cache dump) | 'I' path ';' idx ';' item | 'D' path ';' idx
           | 'Z' path ';' uc | 'M' path ';' uc | 'E' path ';' path | 'C' path
   path  ::= decimal indices separated by '.', empty = the root
   Raw contents and tags are abstract: only their lengths matter to the model, so
   they are filled with zero bytes. *)
open Util
open SizeCacheModel

let zeros n = Stdlib.List.init n (fun _ -> byte_of_int 0)

let parse_item (s : string) (pos : int ref) : node item =
  let peek () = if !pos < String.length s then s.[!pos] else '\000' in
  let adv () = incr pos in
  let is_hex c = (c >= '0' && c <= '9') || (c >= 'a' && c <= 'f') in
  let hexnum () =
    let st = !pos in
    if peek () = '-' then adv ();
    while is_hex (peek ()) do adv () done;
    let t = String.sub s st (!pos - st) in
    if t = "" then failwith ("scache: number expected in " ^ s);
    t in
  let decnum () =
    let st = !pos in
    while peek () >= '0' && peek () <= '9' do adv () done;
    int_of_string (String.sub s st (!pos - st)) in
  let expect c = if peek () <> c then failwith (Printf.sprintf "scache: '%c' expected at %d in %s" c !pos s) else adv () in
  let rec node () : node =
    expect '(';
    let c = hexnum () in
    if String.length c > 0 && c.[0] = '-' then failwith "scache: message without a size cache";
    let items = ref [] in
    while peek () = ',' do adv (); items := item () :: !items done;
    expect ')';
    Node (n_of_hex c, Stdlib.List.rev !items)
  and item () : node item =
    match peek () with
    | 'r' -> adv (); Raw (zeros (int_of_string ("0x" ^ hexnum ())))
    | 'l' -> adv (); let t = decnum () in Sub (KLen (zeros t), node ())
    | 'g' -> adv (); let t = decnum () in Sub (KGroup (zeros t, zeros t), node ())
    | 'x' -> adv (); let t = decnum () in Sub (KLenM (zeros t), node ())
    | 'y' -> adv (); let t = decnum () in Sub (KGroupM (zeros t, zeros t), node ())
    | 'm' -> adv (); let t = decnum () in expect '.';
        let k = int_of_string ("0x" ^ hexnum ()) in
        Sub (KMap (zeros t, zeros k, zeros 1), node ())
    | c -> failwith (Printf.sprintf "scache: bad item '%c' in %s" c s) in
  item ()

let parse_tree (s : string) : node =
  let pos = ref 0 in
  match parse_item ("l0" ^ s) pos with
  | Sub (_, n) -> n
  | _ -> failwith "scache: tree expected"

let parse_path (s : string) : Datatypes.nat list =
  if s = "" then [] else Stdlib.List.map (fun x -> nat_of_int (int_of_string x)) (String.split_on_char '.' s)

let parse_op (s : string) : op =
  let body = String.sub s 1 (String.length s - 1) in
  (* the item of S/I may itself contain ';'? no: items use only ( ) , . and alphanumerics *)
  let parts = String.split_on_char ';' body in
  match s.[0], parts with
  | ('S' | 'L'), [p; i; it] -> OSet (parse_path p, nat_of_int (int_of_string i), parse_item it (ref 0))
  | 'I', [p; i; it] -> OIns (parse_path p, nat_of_int (int_of_string i), parse_item it (ref 0))
  | 'D', [p; i] -> ODel (parse_path p, nat_of_int (int_of_string i))
  | 'Z', [p; uc] -> OSize (parse_path p, bool_of_tok uc)
  | 'M', [p; uc] -> OMarshal (parse_path p, bool_of_tok uc)
  | 'E', [p; q] -> OEqual (parse_path p, parse_path q)
  | 'C', [p] -> OClone (parse_path p)
  | _ -> failwith ("scache: bad op " ^ s)

let caches_tok (t : node) : string =
  "c:" ^ String.concat "." (Stdlib.List.map hex_of_n (caches t))

let len_hex (b : Byte.byte list) = Printf.sprintf "%x" (Stdlib.List.length b)

let obs_tok (o : op) (ob : obs) (t : node) : string =
  match o, ob with
  | (OSet _ | OIns _ | ODel _), ONone -> caches_tok t
  | OSize _, OSz s -> hex_of_n s ^ "/" ^ caches_tok t
  | OMarshal _, OBytes b -> "ok" ^ len_hex b ^ "/" ^ caches_tok t
  | OMarshal _, OMismatch -> "mm"
  | OEqual _, OBool b -> tok_of_bool b
  | OClone _, OBytes b -> "ok" ^ len_hex b
  | _, OInvalid -> "invalid"
  | _, OFuel -> "fuel"
  | _, OMismatch -> "mm"
  | _, _ -> "?"

let handle op args =
  match op, args with
  | "hist", t0 :: ops ->
      let t = ref (parse_tree t0) in
      Stdlib.List.map (fun s ->
        let o = parse_op s in
        let (t', ob) = step !t o in
        t := t';
        if s.[0] = 'L' then "-" else obs_tok o ob t') ops
  | _ -> failwith ("scache: unknown op " ^ op)

let () = register "scache" handle
