(* family "uniq" (C26): internal/set.Ints and the event-level models of the protojson / prototext
   unmarshalMessage loops.  Observation tokens exactly as harness/cmd/h/fam_uniq.go prints them. *)
open Util
open UniqModel

let tl s = String.sub s 1 (String.length s - 1)

(* tree token:  body ::= "(" fld* ")"   fld ::= "K" num cls oneof null body* "." | "U" reserved depth | "S" depth | "N" *)
let parse_tree (s : string) : fld list =
  let toks = ref (Stdlib.List.filter (fun t -> t <> "") (String.split_on_char ' ' s)) in
  let next () = match !toks with [] -> failwith "tree: unexpected end" | t :: r -> toks := r; t in
  let peek () = match !toks with [] -> "" | t :: _ -> t in
  let rec body () : fld list =
    if next () <> "(" then failwith "tree: expected (";
    let rec flds acc =
      match next () with
      | ")" -> Stdlib.List.rev acc
      | "K" ->
        let num = n_of_int (int_of_string (next ())) in
        let cls = (match next () with "s" -> CSingular | "l" -> CList | _ -> CMap) in
        let oneof = (match next () with "-" -> None | t -> Some (n_of_int (int_of_string t))) in
        let isnull = bool_of_tok (next ()) in
        let rec kids acc = if peek () = "(" then kids (body () :: acc) else Stdlib.List.rev acc in
        let ch = kids [] in
        if next () <> "." then failwith "tree: expected .";
        flds (Known (num, cls, oneof, isnull, ch) :: acc)
      | "U" -> let r = bool_of_tok (next ()) in let d = nat_of_int (int_of_string (next ())) in flds (Unknown (r, d) :: acc)
      | "S" -> let d = nat_of_int (int_of_string (next ())) in flds (Scan d :: acc)
      | "N" -> flds (ByNum :: acc)
      | t -> failwith ("tree: unexpected token " ^ t) in
    flds [] in
  body ()

let handle op args =
  match op, args with
  | "ints", ops ->
      let s = ref (Some ints_empty) in
      let obs = ref [] in
      Stdlib.List.iter (fun t ->
        match !s with
        | None -> ()
        | Some st ->
          (match t.[0] with
           | 's' -> s := ints_set st (n_of_hex (tl t))
           | 'c' -> s := Some (ints_clear st (n_of_hex (tl t)))
           | 'h' -> obs := tok_of_bool (ints_has st (n_of_hex (tl t))) :: !obs
           | 'l' -> obs := string_of_int (int_of_nat (ints_len st)) :: !obs
           | _ -> failwith "ints: bad op")) ops;
      (match !s with None -> ["panic"] | Some _ -> Stdlib.List.rev !obs)
  | "events", [dec; limit; discard; tree; _doc] ->
      let t = parse_tree tree in
      let lim = nat_of_int (int_of_string limit) in
      let d = bool_of_tok discard in
      let o = if dec = "j" then jmsg d lim t else tmsg d lim t in
      (match o with
       | Accept -> ["accept"]
       | Reject r -> ["rej" ^ string_of_int (int_of_n (rej_code r))]
       | Panic -> ["panic"])
  | "anyev", [evs] ->
      (* T = type_url:, V = value:, E = expanded form with an acceptable embedded message *)
      let l = Stdlib.List.init (String.length evs) (fun i -> match evs.[i] with 'T' -> AT | 'V' -> AV | _ -> AE Accept) in
      (match tany l false false false with
       | Accept -> ["accept"; tok_of_bool (excl_FL3 l)]
       | Reject r -> ["rej" ^ string_of_int (int_of_n (rej_code r)); tok_of_bool (excl_FL3 l)]
       | Panic -> ["panic"; "0"])
  | _ -> failwith ("uniq: unknown op " ^ op)

let () = register "uniq" handle
