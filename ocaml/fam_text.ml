(* families "text" (string literals, scalar tokens, unknown-field rendering)
   and "textdv" (internal/encoding/defval).  Observation tokens must be
   produced exactly as harness/cmd/h/fam_text.go and fam_textdv.go print them. *)
open Util
open TextStrModel
open TextNumModel

let serr_tok e = match e with SEof -> "eof" | SSyntax -> "syntax" | SFuel -> "fuel"
let len l = Stdlib.List.length l
let optn o = match o with Some v -> hex_of_n v | None -> "-"
let optz o = match o with Some v -> hex_of_z v | None -> "-"
let first_is l p = match l with b :: _ -> p (int_of_byte b) | [] -> false

let scalar_obs legacy inp =
  let inp = consume_ws false inp in
  match inp with
  | [] -> ["eof"]
  | b :: _ when (let x = int_of_byte b in x = 0x7b || x = 0x3c || x = 0x5b) -> ["open"]
  | _ ->
    (match parse_scalar inp with
     | ScErr e -> [serr_tok e]
     | ScStr (s, rawlen) -> ["str"; hex_of_bytes s; string_of_int (int_of_nat rawlen)]
     | ScLit raw ->
         let bc = hex_of_n (bool_lit_class raw) and fc = hex_of_n (float_lit_class raw) in
         ["lit"; hex_of_bytes raw; bc; fc; tok_of_bool (not (first_is raw (fun x -> x = 0x2d)))]
     | ScNum (num, str) ->
         let fok = tok_of_bool (float_syntax_ok str) in
         ["num"; string_of_int (int_of_nat num.nsize); hex_of_n num.nkind; tok_of_bool num.nneg; hex_of_bytes str;
          optn (tok_uint (n_of_int 64) num str); optn (tok_uint (n_of_int 32) num str);
          optz (tok_int legacy (n_of_int 64) num str); optz (tok_int legacy (n_of_int 32) num str);
          fok; fok;
          (match tok_bool_num str with Some true -> "2" | Some false -> "1" | None -> "0")])

let handle op args =
  match op, args with
  | "rune", [b] -> let (r, n) = Utf8Model.decode_rune (bytes_of_hex b) in [hex_of_n r; string_of_int (int_of_nat n)]
  | "encstr", [a; b] -> [hex_of_bytes (append_string (bool_of_tok a) (bytes_of_hex b))]
  (* Tier T: the translated Go source of appendString (Gen/TextEscGo.v) *)
  | "go_encstr", [a; b] ->
      let zs = Stdlib.List.map TextEscGoSup.byte2z (bytes_of_hex b) in
      (match TextEscGo.go_appendString [] zs (bool_of_tok a) with
       | GoInt.Val o -> ["ok"; hex_of_bytes (Stdlib.List.map TextEscGoSup.z2byte o)]
       | GoInt.Panic -> ["panic"]
       | GoInt.Fuel -> ["fuel"])
  | "decstr", [l] ->
      (match unmarshal_string (bytes_of_hex l) with
       | SOk s -> ["ok"; hex_of_bytes s]
       | SErr e -> [serr_tok e])
  | ("strval" | "num"), [legacy; inp] -> scalar_obs (bool_of_tok legacy) (bytes_of_hex inp)
  | "unknown", [indent; ascii; extra; b] ->
      let cfg = { TextUnknownModel.ec_indent = bytes_of_hex indent; ec_extra = bool_of_tok extra; ec_ascii = bool_of_tok ascii } in
      (match TextUnknownModel.marshal_unknown cfg (bytes_of_hex b) with
       | Some out -> ["ok"; hex_of_bytes out]
       | None -> ["panic"])
  | _ -> failwith ("text: unknown op " ^ op)

let () = register "text" handle

(* ---------------- defval ---------------- *)
open DefvalModel

(* protoreflect.Kind numbers *)
let dkind_of_tok s = match int_of_string s with
  | 8 -> KBool | 14 -> KEnum
  | 5 | 17 | 15 -> KInt32 | 3 | 18 | 16 -> KInt64
  | 13 | 7 -> KUint32 | 4 | 6 -> KUint64
  | 2 -> KFloat | 1 -> KDouble | 9 -> KString | 12 -> KBytes
  | _ -> KOther
let dfmt_of_tok s = match s with "1" -> FDescriptor | "2" -> FGoTag | _ -> failwith "bad format"

(* enum values: name=number,... as alternating tokens *)
let rec evs_of_toks l = match l with
  | n :: v :: r -> (bytes_of_hex n, z_of_hex v) :: evs_of_toks r
  | _ -> []

let dval_of_tok k s = match k with
  | KBool -> DBool (bool_of_tok s)
  | KEnum -> DEnum (z_of_hex s)
  | KInt32 -> DInt32 (z_of_hex s) | KInt64 -> DInt64 (z_of_hex s)
  | KUint32 -> DUint32 (n_of_hex s) | KUint64 -> DUint64 (n_of_hex s)
  | KFloat -> DFloat32 (n_of_hex s) | KDouble -> DFloat64 (n_of_hex s)
  | KString -> DString (bytes_of_hex s) | KBytes -> DBytes (bytes_of_hex s)
  | KOther -> DBool false
let tok_of_dval v = match v with
  | DBool b -> tok_of_bool b
  | DEnum z | DInt32 z | DInt64 z -> hex_of_z z
  | DUint32 n | DUint64 n | DFloat32 n | DFloat64 n -> hex_of_n n
  | DString s | DBytes s -> hex_of_bytes s

let un_obs r = match r with
  | Some (v, None) -> ["ok"; tok_of_dval v]
  | Some (v, Some (name, _)) -> ["ok"; tok_of_dval v; hex_of_bytes name]
  | None -> ["err"]

let fparse_of cls bits = match cls with
  | "ok" -> FOk (n_of_hex bits) | "range" -> FRange (n_of_hex bits) | _ -> FSyntax

let handle_dv op args =
  match op, args with
  (* defval <kind> <fmt> <value> <evname or -> <evs...> | marshalled / err, then unmarshal result *)
  | "defval", k :: f :: v :: evn :: evs ->
      let k = dkind_of_tok k and f = dfmt_of_tok f and evs = evs_of_toks evs in
      let ev = if evn = "-" then None else by_name evs (bytes_of_hex evn) in
      (match dv_marshal null_oracle (dval_of_tok k v) ev k f with
       | None -> ["merr"]
       | Some s -> "ok" :: hex_of_bytes s :: un_obs (dv_unmarshal null_oracle s k evs f))
  | "defun", k :: f :: s :: evs ->
      let k = dkind_of_tok k and f = dfmt_of_tok f and evs = evs_of_toks evs in
      un_obs (dv_unmarshal null_oracle (bytes_of_hex s) k evs f)
  (* defvalf <kind> <fmt> <bits> <formatted> <p64cls> <p64bits> <p32cls> <p32bits>: the float arm
     with strconv's answers supplied by the harness *)
  | "defvalf", [k; f; bits; fs; c64; b64; c32; b32] ->
      let k = dkind_of_tok k and f = dfmt_of_tok f in
      let fs = bytes_of_hex fs in
      let o = { fo_fmt32 = (fun _ -> fs); fo_fmt64 = (fun _ -> fs);
                fo_parse32 = (fun _ -> fparse_of c32 b32); fo_parse64 = (fun _ -> fparse_of c64 b64) } in
      (match dv_marshal o (dval_of_tok k bits) None k f with
       | None -> ["merr"]
       | Some s -> "ok" :: hex_of_bytes s :: un_obs (dv_unmarshal o s k [] f))
  | "defunf", [k; f; s; c64; b64; c32; b32] ->
      let k = dkind_of_tok k and f = dfmt_of_tok f in
      let o = { fo_fmt32 = (fun _ -> []); fo_fmt64 = (fun _ -> []);
                fo_parse32 = (fun _ -> fparse_of c32 b32); fo_parse64 = (fun _ -> fparse_of c64 b64) } in
      un_obs (dv_unmarshal o (bytes_of_hex s) k [] f)
  | _ -> failwith ("textdv: unknown op " ^ op)

let () = register "textdv" handle_dv
