(* family "delim": encoding/protodelim (C27).
   Observation tokens must be produced exactly as harness/cmd/h/fam_delim.go prints them. *)
open Util
open DelimModel

(* the reader's freedom, as far as the harness knows it: a bufio.Reader of
   size n peeks successfully iff the request fits its buffer; the chunking of
   Read is arbitrary (the result is proved independent of it), so it is drawn
   pseudo-randomly from the seed on the line *)
let mix a b c =
  let h = ref (a * 0x9e3779b1 + b * 0x85ebca6b + c * 0xc2b2ae35 + 0x27d4eb2f) in
  h := !h lxor (!h lsr 15); h := !h * 0x2c1b3c6d; h := !h lxor (!h lsr 12);
  !h land 0x3fffffff

let mk_oracle kind seed call =
  let is_b = String.length kind > 6 && String.sub kind 0 6 = "bufio:" in
  let bufn = if is_b then int_of_string ("0x" ^ String.sub kind 6 (String.length kind - 6)) else 0 in
  { is_bufio = is_b;
    peek_ok = (fun n -> BinNat.N.leb n (n_of_int (max bufn 16)));
    chunk = (fun i ->
      let h = mix seed call (int_of_nat i) in
      match h land 7 with
      | 0 -> n_of_int 1
      | 1 -> n_of_int 0
      | 2 -> n_of_int 1000000
      | _ -> n_of_int (1 + (h lsr 3) mod 64)) }

let render raw r =
  match r with
  | DOk b -> if raw then "ok:" ^ hex_of_bytes b else Printf.sprintf "ok:%x" (Stdlib.List.length b)
  | DBodyErr _ -> "bad"
  | DEOF -> "eof"
  | DUnexpectedEOF -> "ueof"
  | DOverflow -> "ovf"
  | DTooLarge (s, m) -> "big:" ^ hex_of_n s ^ ":" ^ hex_of_n m
  | DReaderErr -> "rerr"
  | DOutOfFuel -> "fuel"

let handle op args =
  match op, args with
  | "marshal", [b] -> [hex_of_bytes (marshal_to (bytes_of_hex b))]
  | "read", [max; terr; kind; seed; raw; bad; stream] ->
      ignore bad;
      (* the verdict of the message codec is a parameter of the model: the harness's
         capturing message rejects exactly the bodies that start with 0xff; real
         messages written by MarshalTo are always accepted *)
      let raw_mode = bool_of_tok raw in
      let body_ok b = not raw_mode || (match b with x :: _ -> int_of_byte x <> 0xff | [] -> true) in
      let seed = int_of_string ("0x" ^ seed) in
      let raw = bool_of_tok raw in
      let rs = read_stream body_ok (bool_of_tok terr) (fun i -> mk_oracle kind seed (int_of_nat i))
                 (z_of_hex max) (bytes_of_hex stream) in
      Stdlib.List.map (render raw) rs
  | _ -> failwith ("delim: unknown op " ^ op)

let () = register "delim" handle
