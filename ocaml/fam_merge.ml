(* family "merge" (C07): Msg/MergeModel.v and the merging decoder of Msg/MsgDec.v.
   Schemas are stored by family msg (the harness emits `msg schema` lines); values use the
   token format of fam_msg.ml.
   Ops:
     merge <id> <tid> <value a> <value b>        | ok <value>      msg_merge
     clone <id> <tid> <value a>                  | ok <value>      msg_clone
     into  <id> <tid> <f|s> <xbytes x> <xbytes y> | ok <value> or e<code>   decode x, then decode y into the result *)
open Util

let derr e = ["e" ^ string_of_int (int_of_n (MsgDec.derr_code e))]
let limit = Fam_msg.nat_cached 10000

let handle op args =
  match op, args with
  | "merge", id :: tid :: toks ->
    let s = Fam_msg.schema_of_id id and tid = Fam_msg.nat_cached (int_of_string tid) in
    let (a, r) = Fam_msg.parse_value toks in
    let (b, _) = Fam_msg.parse_value r in
    (match MergeModel.msg_merge s limit tid a b with
     | Some v -> "ok" :: Fam_msg.value_tokens v
     | None -> ["depth"])
  | "clone", id :: tid :: toks ->
    let s = Fam_msg.schema_of_id id and tid = Fam_msg.nat_cached (int_of_string tid) in
    let (a, _) = Fam_msg.parse_value toks in
    (match MergeModel.msg_clone s limit tid a with
     | Some v -> "ok" :: Fam_msg.value_tokens v
     | None -> ["depth"])
  | "into", [id; tid; mode; x; y] ->
    let s = Fam_msg.schema_of_id id and tid = Fam_msg.nat_cached (int_of_string tid) in
    let slow = (mode = "s") in
    (match MsgDec.msg_decode slow s limit tid (bytes_of_hex x) with
     | MsgDec.DErr e -> derr e
     | MsgDec.DOk v ->
       (match MsgDec.msg_decode_into slow s limit tid (bytes_of_hex y) v with
        | MsgDec.DOk v' -> "ok" :: Fam_msg.value_tokens v'
        | MsgDec.DErr e -> derr e))
  | _ -> failwith ("merge: unknown op " ^ op)

let () = register "merge" handle
