(* family "gen" (C40): the import block of a protogen.GeneratedFile.
   imports <own path> <q:path | m:path>...  |  <lines joined by ';' | ->  *)
open Util

let gen_bytes_of_string (s : string) : Byte.byte list =
  Stdlib.List.init (String.length s) (fun i -> byte_of_int (Char.code s.[i]))
let gen_string_of_bytes (b : Byte.byte list) : string =
  String.concat "" (Stdlib.List.map (fun x -> String.make 1 (Char.chr (int_of_byte x))) b)

let gen_op (t : string) : EmitModel.gop =
  if String.length t < 2 || t.[1] <> ':' then failwith ("bad op " ^ t);
  let p = gen_bytes_of_string (String.sub t 2 (String.length t - 2)) in
  match t.[0] with
  | 'q' -> EmitModel.OpQualified p
  | 'm' -> EmitModel.OpImport p
  | _ -> failwith ("bad op " ^ t)

let handle op args =
  match op, args with
  | "imports", own :: ops ->
      let lines = EmitModel.import_lines (gen_bytes_of_string own) (Stdlib.List.map gen_op ops) in
      if lines = [] then ["-"] else [String.concat ";" (Stdlib.List.map gen_string_of_bytes lines)]
  | _ -> failwith ("gen: unknown op " ^ op)

let () = register "gen" handle
