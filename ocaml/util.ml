(* Hand-written glue between text lines and the datatypes extracted from Coq.
   Part of the trusted base of the correspondence check (not of the theorems). *)
open BinNums

let rec pos_of_int (i : int) : positive =
  if i = 1 then Coq_xH
  else if i land 1 = 0 then Coq_xO (pos_of_int (i lsr 1))
  else Coq_xI (pos_of_int (i lsr 1))
let n_of_int (i : int) : coq_N = if i = 0 then N0 else Npos (pos_of_int i)
let rec int_of_pos (p : positive) : int =
  match p with Coq_xH -> 1 | Coq_xO q -> 2 * int_of_pos q | Coq_xI q -> 2 * int_of_pos q + 1
let int_of_n (n : coq_N) : int = match n with N0 -> 0 | Npos p -> int_of_pos p
let z_of_int (i : int) : coq_Z = if i = 0 then Z0 else if i > 0 then Zpos (pos_of_int i) else Zneg (pos_of_int (-i))
let int_of_z (z : coq_Z) : int = match z with Z0 -> 0 | Zpos p -> int_of_pos p | Zneg p -> - (int_of_pos p)

let rec nat_of_int (i : int) : Datatypes.nat = if i <= 0 then Datatypes.O else Datatypes.S (nat_of_int (i - 1))
let int_of_nat (n : Datatypes.nat) : int =
  let rec go acc n = match n with Datatypes.O -> acc | Datatypes.S m -> go (acc + 1) m in go 0 n

(* arbitrary-size numbers as hex strings (most significant digit first) *)
let hexval c = match c with
  | '0'..'9' -> Char.code c - 48 | 'a'..'f' -> Char.code c - 87 | 'A'..'F' -> Char.code c - 55
  | _ -> failwith ("bad hex digit " ^ String.make 1 c)

(* bits, least significant first *)
let bits_of_hex (s : string) : bool list =
  let n = String.length s in
  let r = ref [] in
  for i = 0 to n - 1 do   (* from most significant digit *)
    let d = hexval s.[i] in
    (* prepend so that after the loop the list is lsb first *)
    r := ((d land 1) = 1) :: ((d land 2) = 2) :: ((d land 4) = 4) :: ((d land 8) = 8) :: !r
  done; !r

let rec pos_of_bits (bs : bool list) : positive option =
  (* bs lsb first; returns None for zero *)
  match bs with
  | [] -> None
  | b :: r -> (match pos_of_bits r with
               | None -> if b then Some Coq_xH else None
               | Some p -> Some (if b then Coq_xI p else Coq_xO p))

let n_of_hex (s : string) : coq_N =
  match pos_of_bits (bits_of_hex s) with None -> N0 | Some p -> Npos p
let z_of_hex (s : string) : coq_Z =
  if String.length s > 0 && s.[0] = '-' then
    (match n_of_hex (String.sub s 1 (String.length s - 1)) with N0 -> Z0 | Npos p -> Zneg p)
  else (match n_of_hex s with N0 -> Z0 | Npos p -> Zpos p)

let hex_of_pos (p : positive) : string =
  let rec bits p acc = match p with
    | Coq_xH -> true :: acc | Coq_xO q -> bits q (false :: acc) | Coq_xI q -> bits q (true :: acc) in
  (* collect lsb-first *)
  let rec lsb p = match p with Coq_xH -> [true] | Coq_xO q -> false :: lsb q | Coq_xI q -> true :: lsb q in
  ignore bits;
  let l = Array.of_list (lsb p) in
  let nb = Array.length l in
  let nd = (nb + 3) / 4 in
  let b = Buffer.create nd in
  for d = nd - 1 downto 0 do
    let v = ref 0 in
    for k = 3 downto 0 do
      let i = 4 * d + k in
      v := !v * 2 + (if i < nb && l.(i) then 1 else 0)
    done;
    Buffer.add_char b "0123456789abcdef".[!v]
  done; Buffer.contents b
let hex_of_n (n : coq_N) : string = match n with N0 -> "0" | Npos p -> hex_of_pos p
let hex_of_z (z : coq_Z) : string = match z with Z0 -> "0" | Zpos p -> hex_of_pos p | Zneg p -> "-" ^ hex_of_pos p

(* bytes: token "x" followed by hex pairs ("x" alone is the empty string) *)
let byte_table : Byte.byte array = Array.init 256 (fun i -> PBytes.n2b (n_of_int i))
let byte_of_int (i : int) : Byte.byte = byte_table.(i land 255)
let int_of_byte (b : Byte.byte) : int = int_of_n (PBytes.b2n b)

let bytes_of_hex (s : string) : Byte.byte list =
  if String.length s = 0 || s.[0] <> 'x' then failwith ("bad bytes token " ^ s);
  let n = (String.length s - 1) / 2 in
  let r = ref [] in
  for i = n - 1 downto 0 do
    r := byte_of_int (16 * hexval s.[1 + 2 * i] + hexval s.[2 + 2 * i]) :: !r
  done; !r
let hex_of_bytes (bs : Byte.byte list) : string =
  let b = Buffer.create 64 in
  Buffer.add_char b 'x';
  Stdlib.List.iter (fun x -> Buffer.add_string b (Printf.sprintf "%02x" (int_of_byte x))) bs;
  Buffer.contents b

let bool_of_tok s = (s = "1" || s = "true")
let tok_of_bool b = if b then "1" else "0"

(* family registry: each fam_*.ml registers a handler
   handler op args = list of observation tokens *)
let handlers : (string, string -> string list -> string list) Hashtbl.t = Hashtbl.create 16
let register fam h = Hashtbl.replace handlers fam h
