(* family "dectot" (C06): the validator model (both presentations) and the Unmarshal error class.
     val <schema id> <limit hex> <xbytes>        | <status hex: 2 invalid 3 valid> <initialized 0/1>
     dec <schema id> <f|s> <limit hex> <xbytes>  | ok | e1 parse | e2 depth | e3 utf8 | e4 required
   Schemas are the ones stored by family msg (`schema` lines).
   Every schema a `val` line uses must satisfy [dt_schema_wfb] (no dangling type index): that is the
   hypothesis of C06_validate_stack_eq_recursive / C06_decode_total; a schema that does not fails
   the case ("schema-not-wf"). *)
open Util

let wf_cache : (string, bool) Hashtbl.t = Hashtbl.create 16
let schema_wf id s =
  match Hashtbl.find_opt wf_cache id with
  | Some b -> b
  | None -> let b = DecTotalP.dt_schema_wfb s in Hashtbl.add wf_cache id b; b

let handle op args =
  match op, args with
  | "val", [id; limit; b] ->
    let s = Fam_msg.schema_of_id id in
    let lim = Fam_msg.nat_cached (int_of_n (n_of_hex limit)) and bs = bytes_of_hex b in
    if not (schema_wf id s) then ["schema-not-wf"] else
    (* (B) the recursive-descent validator the theorems are about, (A) the explicit-stack machine *)
    let ((st, i), _quirk) = ValidateMsgModel.vm_validate s lim (Fam_msg.nat_cached 0) bs in
    let (st2, i2) = ValidateMsgModel.vm_validate_stack s lim (Fam_msg.nat_cached 0) bs in
    if st <> st2 || i <> i2 then
      ["models-disagree"; hex_of_n st; (if i then "1" else "0"); hex_of_n st2; (if i2 then "1" else "0")]
    else [hex_of_n st; (if i then "1" else "0")]
  | "dec", [id; mode; limit; b] ->
    let s = Fam_msg.schema_of_id id in
    let c = ValidateMsgModel.vm_dec_class (mode = "s") s (Fam_msg.nat_cached (int_of_n (n_of_hex limit)))
        (Fam_msg.nat_cached 0) (bytes_of_hex b) in
    (match int_of_n c with
     | 0 -> ["ok"]
     | 6 -> ["e4"]
     | k -> ["e" ^ string_of_int k])
  | _ -> failwith ("dectot: unknown op " ^ op)

let () = register "dectot" handle
