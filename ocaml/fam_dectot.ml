(* family "dectot" (C06): the validator model (both presentations) and the Unmarshal error class.
     val <schema id> <limit hex> <xbytes>        | <status hex: 2 invalid 3 valid> <initialized 0/1>
     dec <schema id> <f|s> <limit hex> <xbytes>  | ok | e1 parse | e2 depth | e3 utf8 | e4 required
   Schemas are the ones stored by family msg (`schema` lines). *)
open Util

let handle op args =
  match op, args with
  | "val", [id; limit; b] ->
    let s = Fam_msg.schema_of_id id in
    let lim = Fam_msg.nat_cached (int_of_n (n_of_hex limit)) and bs = bytes_of_hex b in
    (* (B) the recursive-descent validator the theorems are about, (A) the explicit-stack machine *)
    let ((st, i), _quirk) = ValidateMsgModel.vm_validate s lim (Fam_msg.nat_cached 0) bs in
    let (st2, i2) = ValidateMsgModel.vm_validate_stack s lim (Fam_msg.nat_cached 0) bs in
    if st <> st2 || i <> i2 then
      ["models-disagree"; hex_of_n st; (if i then "1" else "0"); hex_of_n st2; (if i2 then "1" else "0")]
    else [hex_of_n st; (if i then "1" else "0")]
  | "dec", [id; mode; limit; b] ->
    let s = Fam_msg.schema_of_id id in
    let c = ValidateMsgModel.vm_dec_class (mode = "s") s (Fam_msg.nat_cached (int_of_n (n_of_hex limit)))
        (Fam_msg.nat_cached 0) (bytes_of_hex b) in
    (match int_of_n c with
     | 0 -> ["ok"]
     | 6 -> ["e4"]
     | k -> ["e" ^ string_of_int k])
  | _ -> failwith ("dectot: unknown op " ^ op)

let () = register "dectot" handle
