(* family "utf8" (C13): utf8.Valid / DecodeRune, strs.EnforceUTF8, and the per-position verdict table.
   Observation tokens must be produced exactly as harness/cmd/h/fam_utf8.go prints them. *)
open Util
open Utf8Valid
open Utf8EnforceModel

let syntax_of_tok s = match s with "2" -> Proto2 | "3" -> Proto3 | _ -> Editions
let fdesc_of syn hasm v = { fd_syntax = syntax_of_tok syn; fd_has_method = bool_of_tok hasm; fd_validated = bool_of_tok v }
let override_of_tok s = match s with "-" -> None | t -> Some (bool_of_tok t)

let handle op args =
  match op, args with
  | "valid", [b] -> [tok_of_bool (utf8_valid (bytes_of_hex b))]
  | "dec", [b] -> let (r, n) = decode_rune (bytes_of_hex b) in [hex_of_n r; Printf.sprintf "%x" (int_of_nat n)]
  | "enforce", [legacy; syn; hasm; v] -> [tok_of_bool (enforce_utf8 (bool_of_tok legacy) (fdesc_of syn hasm v))]
  | "validated", syn :: ovs -> [tok_of_bool (is_validated (syntax_of_tok syn) (Stdlib.List.map override_of_tok ovs))]
  | "pos", [codec; kind; pos; legacy; syn; hasm; v; msyn; mhasm; mv; bs] ->
      let legacy = bool_of_tok legacy in
      let e = { e_self = enforce_utf8 legacy (fdesc_of syn hasm v); e_map = enforce_utf8 legacy (fdesc_of msyn mhasm mv) } in
      (match verdict_of (codec_of_N (n_of_hex codec)) (fkind_of_N (n_of_hex kind)) (position_of_N (n_of_hex pos)) e (bytes_of_hex bs) with
       | Reject -> ["rej"]
       | Accept d -> ["ok"; hex_of_bytes d])
  | "excl", [codec; pos] ->
      let c = codec_of_N (n_of_hex codec) and p = position_of_N (n_of_hex pos) in
      [tok_of_bool (excl_FL1 c p); tok_of_bool (excl_FL2 c p)]
  | _ -> failwith ("utf8: unknown op " ^ op)

let () = register "utf8" handle
