(* family "desc": internal/filedesc ranges, keyed lookups and message structure (C36).
   Observation tokens must be produced exactly as harness/cmd/h/fam_desc.go prints them.
   Composite tokens: "L<n>:" + n records separated by ';', record fields by ',',
   strings hex (no prefix), numbers as hex_of_z. *)
open Util
open DescRangesModel
open DescLookupModel

let parse_list (tok : string) : string list list =
  if String.length tok < 3 || tok.[0] <> 'L' then failwith ("bad list token " ^ tok);
  let colon = String.index tok ':' in
  let n = int_of_string (String.sub tok 1 (colon - 1)) in
  let body = String.sub tok (colon + 1) (String.length tok - colon - 1) in
  if n = 0 then []
  else begin
    let recs = String.split_on_char ';' body in
    if Stdlib.List.length recs <> n then failwith ("list token count mismatch " ^ tok);
    Stdlib.List.map (String.split_on_char ',') recs
  end

let bs_of_h (s : string) = bytes_of_hex ("x" ^ s)
let h_of_bs bs = let s = hex_of_bytes bs in String.sub s 1 (String.length s - 1)
let mk_list recs = "L" ^ string_of_int (Stdlib.List.length recs) ^ ":" ^ String.concat ";" recs

let kind_of = function "f" -> FieldR | "e" -> EnumR | s -> failwith ("bad range kind " ^ s)
let ranges_of tok =
  Stdlib.List.map (function [s; e] -> (z_of_hex s, z_of_hex e) | _ -> failwith "bad range record") (parse_list tok)
let names_of tok =
  Stdlib.List.map (function [s] -> bs_of_h s | _ -> failwith "bad name record") (parse_list tok)
let nums_of tok =
  Stdlib.List.map (function [s] -> z_of_hex s | _ -> failwith "bad number record") (parse_list tok)
let flds_of tok =
  Stdlib.List.map (function
    | [name; json; text; num; gl; lj; lt] ->
      { f_name = bs_of_h name; f_json = bs_of_h json; f_text = bs_of_h text; f_num = z_of_hex num;
        f_grouplike = bool_of_tok gl; f_ljson = bs_of_h lj; f_ltext = bs_of_h lt }
    | _ -> failwith "bad field record") (parse_list tok)
let evs_of tok =
  Stdlib.List.map (function [name; num] -> (bs_of_h name, z_of_hex num) | _ -> failwith "bad enum value record") (parse_list tok)

let idx = function None -> "-1" | Some n -> string_of_int (int_of_nat n)
let has_tok = function Some true -> "1" | Some false -> "0" | None -> "stuck"
let bkeys ks = Stdlib.List.map bytes_of_hex ks
let zkeys ks = Stdlib.List.map z_of_hex ks

(* Tier T: the translated source (Gen/RangesGo.v); the list argument is the sorted copy *)
let go_bool_tok = function GoInt.Val true -> "1" | GoInt.Val false -> "0" | GoInt.Panic -> "panic" | GoInt.Fuel -> "fuel"
let go_err_tok (e : RangesGo.go_err) =
  match e with
  | RangesGo.ENil -> "0" | RangesGo.E_err_invalid_field_number -> "1"
  | RangesGo.E_err_invalid_range -> "2" | RangesGo.E_err_overlapping_ranges -> "3"

let go_out_err_tok = function GoInt.Val e -> go_err_tok e | GoInt.Panic -> "panic" | GoInt.Fuel -> "fuel"

let handle op args =
  match op, args with
  | "go_has", kind :: s :: ns ->
    let s = ranges_of s in
    Stdlib.List.map (fun n -> go_bool_tok (match kind_of kind with
      | EnumR -> RangesGo.run_EnumRanges_Has s n | FieldR -> RangesGo.run_FieldRanges_Has s n)) (zkeys ns)
  | "go_cvalid", [kind; ms; s] ->
    [go_out_err_tok (match kind_of kind with
      | EnumR -> RangesGo.run_EnumRanges_CheckValid (ranges_of s)
      | FieldR -> RangesGo.run_FieldRanges_CheckValid (ranges_of s) (bool_of_tok ms))]
  | "go_coverlap", [p; q] ->
    [go_out_err_tok (RangesGo.run_FieldRanges_CheckOverlap (ranges_of p) (ranges_of q))]
  | "has", kind :: l :: ns ->
    Stdlib.List.map has_tok (ranges_has_many (kind_of kind) (ranges_of l) (zkeys ns))
  | "cvalid", [kind; ms; l] ->
    [string_of_int (int_of_z (cverr_code (check_valid (kind_of kind) (bool_of_tok ms) (ranges_of l))))]
  | "cvalidok", [kind; ms; l] ->
    [tok_of_bool (check_valid (kind_of kind) (bool_of_tok ms) (ranges_of l) = CVOk)]
  | "coverlap", [p; q] -> [tok_of_bool (check_overlap (ranges_of p) (ranges_of q))]
  | "nhas", l :: ks -> Stdlib.List.map tok_of_bool (names_has_many (names_of l) (bkeys ks))
  | "ncheck", [l] -> [tok_of_bool (names_check_dup (names_of l))]
  | "numhas", l :: ks -> Stdlib.List.map tok_of_bool (numbers_has_many (nums_of l) (zkeys ks))
  | "lbyname", l :: ks -> Stdlib.List.map idx (list_by_name_many (names_of l) (bkeys ks))
  | "evbyname", l :: ks -> Stdlib.List.map idx (enumvalues_by_name_many (evs_of l) (bkeys ks))
  | "evbynum", l :: ks -> Stdlib.List.map idx (enumvalues_by_number_many (evs_of l) (zkeys ks))
  | "fbyname", l :: ks -> Stdlib.List.map idx (fields_by_name_many (flds_of l) (bkeys ks))
  | "fbyjson", l :: ks -> Stdlib.List.map idx (fields_by_json_many (flds_of l) (bkeys ks))
  | "fbytext", l :: ks -> Stdlib.List.map idx (fields_by_text_many (flds_of l) (bkeys ks))
  | "fbynum", l :: ks -> Stdlib.List.map idx (fields_by_number_many (flds_of l) (zkeys ks))
  | "obyname", l :: ks -> Stdlib.List.map idx (oneof_by_name_many (flds_of l) (bkeys ks))
  | "obyjson", l :: ks -> Stdlib.List.map idx (oneof_by_json_many (flds_of l) (bkeys ks))
  | "obytext", l :: ks -> Stdlib.List.map idx (oneof_by_text_many (flds_of l) (bkeys ks))
  | "obynum", l :: ks -> Stdlib.List.map idx (oneof_by_number_many (flds_of l) (zkeys ks))
  | "fullname", [scope; name] ->
    let full = append_full_name (bytes_of_hex scope) (bytes_of_hex name) in
    [hex_of_bytes full; hex_of_bytes (fullname_name full); hex_of_bytes (fullname_parent full)]
  | "msg", [parent; fs; os] ->
    let fps = Stdlib.List.map (function
      | [name; num; card; oi] ->
        { fp_name = bs_of_h name; fp_num = z_of_hex num; fp_card = z_of_hex card;
          fp_oneof = (let i = int_of_string oi in if i < 0 then None else Some (nat_of_int i)) }
      | _ -> failwith "bad field proto record") (parse_list fs) in
    (match build_message (bytes_of_hex parent) fps (names_of os) with
     | None -> ["err"]
     | Some m ->
       let oi = function None -> "-1" | Some k -> string_of_int (int_of_nat k) in
       [ mk_list (Stdlib.List.map (fun f ->
           String.concat "," [string_of_int (int_of_nat f.fd_index); h_of_bs f.fd_fullname; oi f.fd_oneof]) m.md_fields);
         mk_list (Stdlib.List.map hex_of_z m.md_required);
         mk_list (Stdlib.List.map (fun o ->
           String.concat "," [string_of_int (int_of_nat o.od_index); h_of_bs o.od_fullname;
                              String.concat "." (Stdlib.List.map (fun j -> string_of_int (int_of_nat j)) o.od_fields)]) m.md_oneofs) ])
  | _ -> failwith ("desc: unknown op " ^ op)

let () = register "desc" handle
