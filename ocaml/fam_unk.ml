(* family "unk" (C09): unknown-field retention of the decoder model (Msg/MsgDec.v) and
   Msg/UnkModel.v (DiscardUnknown, schema evolution).  Schemas are stored by family msg.
   Ops:
     dec     <id> <f|s> <xbytes>         | ok <value> or e<code>     msg_decode (root type 0, default recursion limit)
     discard <id> <f|s> <xbytes>         | ok <value> or e<code>     msg_decode_discard
     evo     <id> <id'> <f|s> <xbytes>   | ok <value> or e<code>     msg_evolve: decode S' (reflection path), encode S', decode S *)
open Util

let limit = Fam_msg.nat_cached 10000
let zero = Fam_msg.nat_cached 0
let res = function
  | MsgDec.DOk v -> "ok" :: Fam_msg.value_tokens v
  | MsgDec.DErr e -> ["e" ^ string_of_int (int_of_n (MsgDec.derr_code e))]

let handle op args =
  match op, args with
  | "dec", [id; mode; b] ->
    res (MsgDec.msg_decode (mode = "s") (Fam_msg.schema_of_id id) limit zero (bytes_of_hex b))
  | "discard", [id; mode; b] ->
    res (UnkModel.msg_decode_discard (mode = "s") (Fam_msg.schema_of_id id) limit zero (bytes_of_hex b))
  | "evo", [id; id'; mode; b] ->
    res (UnkModel.msg_evolve (mode = "s") (Fam_msg.schema_of_id id) (Fam_msg.schema_of_id id') limit (bytes_of_hex b))
  | _ -> failwith ("unk: unknown op " ^ op)

let () = register "unk" handle
