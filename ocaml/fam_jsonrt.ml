(* family "jsonrt" (C20): the tree-level protojson model (Json/JsonMsgModel.v) against the implementation.

   Ops (harness/cmd/h/fam_jsonrt.go):
     schema <id> <schema+name tokens>                        | ok
     enc <id> <opts bits> <value> T <impl tree>               | ok  (model tree matches the implementation's)
     enc <id> <opts bits> <value> X                           | err <class>
     dec <id> <impl tree>                                     | ok <value>  |  err
   tree tokens:  O <n> (<key> <value>)... | A <n> <value>... | S <xhex> | T | F | Z | N <text> <int|-> <f64> <f32> *)
open Util
open JsonMsgModel

let tables : (string, MsgSchema.schema * RtSchema.names) Hashtbl.t = Hashtbl.create 64
let table id = try Hashtbl.find tables id with Not_found -> failwith ("jsonrt: unknown schema id " ^ id)

let rec parse_tree (toks : string list) : jv * string list =
  match toks with
  | "O" :: n :: rest ->
    let rec go k toks acc =
      if k = 0 then (JObj (Stdlib.List.rev acc), toks)
      else match toks with
        | key :: r -> let (v, r') = parse_tree r in go (k - 1) r' ((bytes_of_hex key, v) :: acc)
        | [] -> failwith "jsonrt: short object" in
    go (int_of_string n) rest []
  | "A" :: n :: rest ->
    let rec go k toks acc =
      if k = 0 then (JArr (Stdlib.List.rev acc), toks)
      else let (v, r') = parse_tree toks in go (k - 1) r' (v :: acc) in
    go (int_of_string n) rest []
  | "S" :: s :: rest -> (JStr (bytes_of_hex s), rest)
  | "T" :: rest -> (JBool true, rest)
  | "F" :: rest -> (JBool false, rest)
  | "Z" :: rest -> (JNull, rest)
  | "N" :: _text :: iv :: f64 :: f32 :: rest ->
    (JNum (NLit ((if iv = "-" then None else Some (z_of_hex iv)), n_of_hex f64, n_of_hex f32)), rest)
  | _ -> failwith "jsonrt: bad tree tokens"

let opts_of_bits (b : int) : jopts =
  { o_multiline = b land 1 <> 0; o_indent = b land 2 <> 0; o_proto_names = b land 4 <> 0;
    o_enum_numbers = b land 8 <> 0; o_emit_unpop = b land 16 <> 0; o_emit_defaults = b land 32 <> 0 }

let err_class = function
  | EUtf8 -> "utf8" | ETimestamp -> "timestamp_range" | EDuration -> "duration_range"
  | EFieldMask -> "fieldmask_path" | EValueEmpty -> "value_empty" | EValueNonFinite -> "value_nonfinite"
  | EAnyNoType -> "any_no_type" | EAnyUnresolvable -> "any_unresolvable" | EAnyMalformed -> "any_malformed"
  | ESchema -> "model:schema" | EFuel -> "model:fuel" | EDecode -> "decode" | EUnmodelled -> "model:unmodelled"

(* debugging aid: the model tree in a JSON-like notation *)
let rec show (j : jv) : string =
  match j with
  | JNull -> "null" | JBool b -> string_of_bool b
  | JNum (NInt z) -> "i" ^ hex_of_z z | JNum (NF32 b) -> "f32:" ^ hex_of_n b | JNum (NF64 b) -> "f64:" ^ hex_of_n b
  | JNum (NLit (_, a, b)) -> "lit:" ^ hex_of_n a ^ "/" ^ hex_of_n b
  | JStr s -> "\"" ^ String.escaped (Fam_rt.string_of_bytes s) ^ "\""
  | JArr l -> "[" ^ String.concat "," (Stdlib.List.map show l) ^ "]"
  | JObj l -> "{" ^ String.concat "," (Stdlib.List.map (fun (k, v) -> "\"" ^ String.escaped (Fam_rt.string_of_bytes k) ^ "\":" ^ show v) l) ^ "}"

let handle op args =
  match op, args with
  | "schema", id :: toks ->
    let (s, nm) = Fam_rt.parse_schema_names toks in
    Hashtbl.replace tables id (s, nm);
    (* the hypothesis of the C20 theorems about the schema table, checked on every schema used *)
    if JsonMsgValid.json_schema_ok s nm then ["ok"] else ["schema-not-ok"]
  | "cls", id :: eu :: toks ->
    let (s, nm) = table id in
    if not (JsonWktValid.json_core2 s nm) then ["not-core"] else
    let (v, _) = Fam_msg.parse_value toks in
    let v = Fam_rt.norm_nan s 0 v in
    let valid strict = JsonWktValid.json_valid2 strict (eu = "1") s nm (Lazy.force Fam_rt.lim_nat) (Lazy.force Fam_rt.fuel_nat) Datatypes.O v in
    if valid true then ["v"] else if valid false then ["f11"] else ["nv"]
  | "enc", id :: bits :: toks ->
    let (s, nm) = table id in
    let (v, rest) = Fam_msg.parse_value toks in
    let r = to_json JsonWktLite.std_codec (opts_of_bits (int_of_string bits)) s nm
        (Lazy.force Fam_rt.lim_nat) (Lazy.force Fam_rt.fuel_nat) Datatypes.O v in
    (match r, rest with
     | JOk j, "T" :: tt ->
       let (it, _) = parse_tree tt in
       if jv_match j it then ["ok"] else ["diff"; String.map (fun c -> if c = '\t' || c = '\n' then ' ' else c) (show j)]
     | JOk j, _ -> ["ok-but-impl-failed"]
     | JErr e, _ -> ["err"; err_class e])
  | "dec", id :: toks ->
    let (s, nm) = table id in
    let (it, _) = parse_tree toks in
    (match of_json JsonWktLite.std_codec s nm (Lazy.force Fam_rt.fuel_nat) Datatypes.O it with
     | JOk v -> "ok" :: Fam_msg.value_tokens v
     | JErr e -> ["err"; err_class e])
  | _ -> failwith ("jsonrt: unknown op " ^ op)

let () = register "jsonrt" handle
