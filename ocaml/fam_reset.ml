(* family "reset" (C15): replays an abstract history on the extracted model
   Msg/ResetModel.v and prints, after every step, what harness/cmd/h/fam_reset.go
   reads from the Go message:
     <populated field numbers>;<populated extension numbers>;<unknown bytes>;<concrete cells>
   Token formats must agree with fam_reset.go (resetOp.tok / resetObs). *)
open Util
open ResetModel

let split c s = String.split_on_char c s
let num s = n_of_hex s
let cls_of = function
  | "sp" -> SP | "si" -> SI | "m" -> M | "ml" -> ML | "l" -> L | "lo" -> LO | "mp" -> MP | "o" -> OO
  | s -> failwith ("reset: class " ^ s)
let fld n c g = { fnum = num n; fcls = cls_of c; fgrp = n_of_int (int_of_string g) }

(* value identifiers: distinct for every op / item *)
let vid opi iti = n_of_int ((opi + 1) * 4096 + iti * 16)

let item opi iti s =
  match split '.' s with
  | ["f"; n; c; g; nz; cnt] -> WField (fld n c g, bool_of_tok nz, nat_of_int (int_of_string cnt), vid opi iti)
  | ["x"; n; isl; cnt] -> WExt (num n, bool_of_tok isl, nat_of_int (int_of_string cnt), vid opi iti)
  | ["u"; raw] -> WUnk (bytes_of_hex raw)
  | _ -> failwith ("reset: item " ^ s)
let items opi s = if s = "-" then [] else Stdlib.List.mapi (fun i x -> item opi i x) (split ';' s)

let failspec s =
  match split '.' s with
  | ["n"] -> FNone
  | [k; g] -> FAt (nat_of_int (int_of_string k), bool_of_tok g, None)
  | [k; g; n; c] -> FAt (nat_of_int (int_of_string k), bool_of_tok g, Some (fld n c "0"))
  | _ -> failwith ("reset: failspec " ^ s)

let op opi s =
  match split ':' s with
  | ["set"; n; c; g; nz; cnt] -> OSet (fld n c g, bool_of_tok nz, nat_of_int (int_of_string cnt), vid opi 0)
  | ["clr"; n; c; g] -> OClr (fld n c g)
  | ["mut"; n; c; g] -> OMut (fld n c g)
  | ["app"; n; c; g] -> OApp (fld n c g, vid opi 0)
  | ["trn"; n; c; g] -> OTrn (fld n c g)
  | ["xset"; n; isl; cnt] -> OXSet (num n, bool_of_tok isl, nat_of_int (int_of_string cnt), vid opi 0)
  | ["xclr"; n] -> OXClr (num n)
  | ["unk"; raw] -> OUnk (bytes_of_hex raw)
  | ["size"] -> OSize
  | ["dmar"] -> ODMar
  | ["touch"] -> OTouch
  | ["mrg"; its] -> OMrg (items opi its)
  | ["um"; fl; its] -> OUm (items opi its, failspec fl)
  | ["un"; fl; its] -> OUn (items opi its, failspec fl)
  | ["rst"] -> ORst
  | _ -> failwith ("reset: op " ^ s)

(* the fields / extension numbers a history mentions *)
let item_flds = function WField (f, _, _, _) -> [f] | _ -> []
let item_exts = function WExt (n, _, _, _) -> [n] | _ -> []
let fail_flds = function FAt (_, _, Some f) -> [f] | _ -> []
let op_flds = function
  | OSet (f, _, _, _) | OClr f | OMut f | OApp (f, _) | OTrn f -> [f]
  | OMrg its -> Stdlib.List.concat_map item_flds its
  | OUm (its, fl) | OUn (its, fl) -> Stdlib.List.concat_map item_flds its @ fail_flds fl
  | _ -> []
let op_exts = function
  | OXSet (n, _, _, _) | OXClr n -> [n]
  | OMrg its | OUm (its, _) | OUn (its, _) -> Stdlib.List.concat_map item_exts its
  | _ -> []

let sort_uniq_by key l =
  let l = Stdlib.List.sort (fun a b -> compare (key a) (key b)) l in
  let rec dedup = function
    | a :: b :: r when key a = key b -> dedup (a :: r)
    | a :: r -> a :: dedup r
    | [] -> [] in
  dedup l

let hexlist l = String.concat "," (Stdlib.List.map hex_of_n l)

let handle opname args =
  match opname, args with
  | "hist", fl :: fst :: hl :: optoks ->
    let cf = { flav = (match fl with "open" -> Open | "opaque" -> Opaque | "dyn" -> Dyn | s -> failwith ("reset: flavour " ^ s));
               fast = bool_of_tok fst; haslazy = bool_of_tok hl } in
    let ops = Stdlib.List.mapi op optoks in
    let schema = sort_uniq_by (fun f -> int_of_n f.fnum) (Stdlib.List.concat_map op_flds ops) in
    let groups = sort_uniq_by int_of_n
        (Stdlib.List.filter_map (fun f -> if f.fcls = OO then Some f.fgrp else None) schema) in
    let xnums = sort_uniq_by int_of_n (Stdlib.List.concat_map op_exts ops) in
    let concrete = cf.fast && cf.flav <> Dyn in
    let obs s =
      let conc =
        if not concrete then "-" else begin
          let toks = Stdlib.List.map hex_of_n (obs_cells cf s schema)
                     @ Stdlib.List.map (fun g -> "g" ^ string_of_int (int_of_n g)) (obs_groups s groups) in
          let (((p, z), c), e) = obs_flags s in
          String.concat "," toks ^ "/p" ^ tok_of_bool p ^ "z" ^ tok_of_bool z ^ "s" ^ tok_of_bool c ^ "e" ^ string_of_int (int_of_n e)
        end in
      hexlist (obs_has cf s schema) ^ ";" ^ hexlist (obs_exts s xnums) ^ ";" ^ hex_of_bytes s.unk ^ ";" ^ conc in
    let (_, out) = Stdlib.List.fold_left (fun (s, acc) o -> let s' = step cf schema s o in (s', obs s' :: acc)) (init, []) ops in
    string_of_int (Stdlib.List.length ops) :: Stdlib.List.rev out
  | _ -> failwith ("reset: unknown op " ^ opname)

let () = register "reset" handle
