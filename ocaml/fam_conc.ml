(* families "conc18" / "conc19": trace checkers for the concurrency protocol models.
   Tokens must be produced exactly as harness/cmd/h/fam_conc18.go / fam_conc19.go print them. *)
open Util

let split c s = String.split_on_char c s
let ios = int_of_string

(* a 64-bit digest (hex) as four 16-bit parts: the "parts" written by the model's decode steps *)
let parts_of_hex (h : string) : BinNums.coq_N list =
  let h = String.make (max 0 (16 - String.length h)) '0' ^ h in
  Stdlib.List.map (fun i -> n_of_hex (String.sub h (4 * i) 4)) [0; 1; 2; 3]

(* ---------------------------------------------------------------- conc18 *)
type c18 = {
  mutable nthreads : int;
  mutable fields : (int * (bool * int * string)) list;   (* id -> present, msg, digest *)
  mutable noidx : int list;
  mutable events : (int * int * int * string) list;      (* tid, fld, cls, digest *)
  mutable sched : (int * int) list;
}

let parse18 args =
  let r = { nthreads = 0; fields = []; noidx = []; events = []; sched = [] } in
  Stdlib.List.iter (fun tok ->
    match split ':' tok with
    | ["n"; n] -> r.nthreads <- ios n
    | ["f"; id; p; m; d] -> r.fields <- (ios id, (p = "1", ios m, d)) :: r.fields
    | ["x"; l] -> r.noidx <- (if l = "" then [] else Stdlib.List.map ios (split ',' l))
    | ["e"; t; f; k; d] -> r.events <- (ios t, ios f, ios k, d) :: r.events
    | ["s"; t; f] -> r.sched <- (ios t, ios f) :: r.sched
    | _ -> failwith ("conc18: bad token " ^ tok)) args;
  r.events <- Stdlib.List.rev r.events; r.sched <- Stdlib.List.rev r.sched; r

let config18 (r : c18) : LazyCasModel.config =
  let fld f = Stdlib.List.assoc_opt (int_of_nat f) r.fields in
  let msg_of f = match fld f with Some (_, m, _) -> nat_of_int m | None -> nat_of_int 0 in
  let build m = n_of_int (int_of_nat m + 1) in
  { LazyCasModel.present = (fun f -> match fld f with Some (p, _, _) -> p | None -> false);
    msg_of = msg_of;
    preindexed = (fun m -> not (Stdlib.List.mem (int_of_nat m) r.noidx));
    build_index = build;
    dec = (fun iv f ->
      match fld f with
      | Some (_, _, d) when iv = build (msg_of f) -> parts_of_hex d
      | _ -> []) }

let handle18 op args =
  let r = parse18 args in
  let c = config18 r in
  match op with
  | "trace" ->
    let os = Stdlib.List.map (fun (t, f, k, d) ->
      { LazyCasModel.o_tid = nat_of_int t; o_fld = nat_of_int f; o_cls = nat_of_int k;
        o_parts = (if k = 0 then [] else parts_of_hex d) }) r.events in
    [if LazyCasModel.check_observed c os then "ok" else "bad"]
  | "sched" ->
    let sched = Stdlib.List.map (fun (t, f) -> (nat_of_int t, nat_of_int f)) r.sched in
    (match LazyCasModel.run_schedule c sched (LazyCasModel.init c) [] with
     | None -> ["stuck"]
     | Some (s, tr) ->
       (* the produced trace must replay through run_trace to the same observable state *)
       let threads = Stdlib.List.init r.nthreads nat_of_int in
       let fields = Stdlib.List.map (fun (id, _) -> nat_of_int id) r.fields in
       let ok1 = LazyCasModel.state_ok c s threads fields in
       let ok2 = (match LazyCasModel.run_trace c tr (LazyCasModel.init c) with
                  | Some s2 -> LazyCasModel.state_ok c s2 threads fields
                  | None -> false) in
       [if ok1 && ok2 then "ok" else "bad"])
  | _ -> failwith ("conc18: unknown op " ^ op)

let () = Util.register "conc18" handle18

(* ---------------------------------------------------------------- conc19 *)
let nats_of_csv l = if l = "" then [] else Stdlib.List.map (fun x -> nat_of_int (ios x)) (split ',' l)

let handle19 op args =
  match op with
  | "init" ->
    (* d:<recheck_data> b:<body_len> e:<tid>:<saw>... : observed calls of one init-once object *)
    let d = ref false and b = ref 3 and evs = ref [] in
    Stdlib.List.iter (fun tok ->
      match split ':' tok with
      | ["d"; x] -> d := (x = "1")
      | ["b"; x] -> b := ios x
      | ["n"; _] -> ()
      | "o" :: _ -> ()
      | ["e"; t; saw] -> evs := (nat_of_int (ios t), saw = "1") :: !evs
      | _ -> failwith ("conc19 init: bad token " ^ tok)) args;
    let c = { InitOnceModel.body_len = nat_of_int !b; recheck_data = !d } in
    [if InitOnceModel.icheck_observed c (Stdlib.List.rev !evs) InitOnceModel.iinit then "ok" else "bad"]
  | "isched" ->
    (* model-only: d:.. b:.. n:<threads> s:<tid>... *)
    let d = ref false and b = ref 3 and n = ref 0 and sched = ref [] in
    Stdlib.List.iter (fun tok ->
      match split ':' tok with
      | ["d"; x] -> d := (x = "1")
      | ["b"; x] -> b := ios x
      | ["n"; x] -> n := ios x
      | ["s"; t] -> sched := nat_of_int (ios t) :: !sched
      | _ -> failwith ("conc19 isched: bad token " ^ tok)) args;
    let c = { InitOnceModel.body_len = nat_of_int !b; recheck_data = !d } in
    let threads = Stdlib.List.init !n nat_of_int in
    (match InitOnceModel.irun_schedule c (Stdlib.List.rev !sched) InitOnceModel.iinit [] with
     | None -> ["stuck"]
     | Some (s, tr) ->
       let ok1 = InitOnceModel.istate_ok c s threads in
       let ok2 = (match InitOnceModel.irun_trace c tr InitOnceModel.iinit with
                  | Some s2 -> InitOnceModel.istate_ok c s2 threads | None -> false) in
       [if ok1 && ok2 then "ok" else "bad"])
  | "reg" ->
    (* r:<tid>:<own completed csv>:<seen csv>... : observed registry snapshots *)
    let os = Stdlib.List.filter_map (fun tok ->
      match split ':' tok with
      | ["r"; _; pre; seen] -> Some (nats_of_csv pre, nats_of_csv seen)
      | ["n"; _] -> None
      | _ -> failwith ("conc19 reg: bad token " ^ tok)) args in
    [if InitOnceModel.robs_ok os then "ok" else "bad"]
  | "rsched" ->
    (* model-only: n:<threads> k:<items per registration> s:<tid>:<reg id or L>... *)
    let n = ref 0 and k = ref 2 and sched = ref [] in
    Stdlib.List.iter (fun tok ->
      match split ':' tok with
      | ["n"; x] -> n := ios x
      | ["k"; x] -> k := ios x
      | ["s"; t; "L"] -> sched := (nat_of_int (ios t), None) :: !sched
      | ["s"; t; r] -> sched := (nat_of_int (ios t), Some (nat_of_int (ios r))) :: !sched
      | _ -> failwith ("conc19 rsched: bad token " ^ tok)) args;
    let kk = !k in
    let c = (fun r -> Stdlib.List.init kk (fun j -> nat_of_int (int_of_nat r * 10 + j))) in
    let threads = Stdlib.List.init !n nat_of_int in
    (match InitOnceModel.rrun_schedule c (Stdlib.List.rev !sched) InitOnceModel.rinit with
     | None -> ["stuck"]
     | Some s -> [if InitOnceModel.rstate_ok c s threads then "ok" else "bad"])
  | _ -> failwith ("conc19: unknown op " ^ op)

let () = Util.register "conc19" handle19
