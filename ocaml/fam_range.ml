(* family "range": reflect/protorange (C32).
   Observation tokens must be produced exactly as harness/cmd/h/fam_range.go prints them. *)
open Util
open RangeModel

(* tree := s | M{ (num:tree,)* [u] [a tree] } | L{ (tree,)* } | P{ (idx:tree,)* } *)
let parse_tree (s : string) : tree =
  let pos = ref 0 in
  let peek () = if !pos < String.length s then s.[!pos] else '$' in
  let eat c = if peek () = c then incr pos else failwith (Printf.sprintf "range: expected %c at %d in %s" c !pos s) in
  let num () =
    let st = !pos in
    while (match peek () with '0'..'9' -> true | _ -> false) do incr pos done;
    n_of_int (int_of_string (String.sub s st (!pos - st))) in
  let rec tree () =
    match peek () with
    | 's' -> incr pos; Scalar
    | 'M' ->
        incr pos; eat '{';
        let fields = ref [] in
        while (match peek () with '0'..'9' -> true | _ -> false) do
          let n = num () in eat ':'; let t = tree () in eat ','; fields := (n, t) :: !fields
        done;
        let unk = if peek () = 'u' then (incr pos; true) else false in
        let any = if peek () = 'a' then (incr pos; Some (tree ())) else None in
        eat '}'; Message (Stdlib.List.rev !fields, unk, any)
    | 'L' ->
        incr pos; eat '{';
        let elems = ref [] in
        while peek () <> '}' do let t = tree () in eat ','; elems := t :: !elems done;
        eat '}'; TList (Stdlib.List.rev !elems)
    | 'P' ->
        incr pos; eat '{';
        let es = ref [] in
        while peek () <> '}' do
          let n = num () in eat ':'; let t = tree () in eat ','; es := (n, t) :: !es
        done;
        eat '}'; TMap (Stdlib.List.rev !es)
    | c -> failwith (Printf.sprintf "range: unexpected %c at %d" c !pos) in
  let t = tree () in
  if !pos <> String.length s then failwith "range: trailing input";
  t

let step_tok st =
  match st with
  | SRoot -> "r" | SField n -> "f" ^ string_of_int (int_of_n n) | SUnknown -> "u" | SAny -> "a"
  | SIndex i -> "i" ^ string_of_int (int_of_n i) | SKey k -> "k" ^ string_of_int (int_of_n k)
let path_str p = String.concat "/" (Stdlib.List.map step_tok p)

let parse_script s =
  if s = "-" then [] else
  Stdlib.List.map (fun e ->
    match String.split_on_char '=' e with
    | [k; v] -> (k, (match v with "B" -> Break | "T" -> Terminate | "E" -> Error (n_of_int 1)
                                | _ -> failwith "range: bad verdict"))
    | _ -> failwith ("range: bad script entry " ^ e)) (String.split_on_char ';' s)

let last l = Stdlib.List.nth l (Stdlib.List.length l - 1)

let handle op args =
  match op, args with
  | "range", [tree; script] ->
      let t = parse_tree tree in
      let sc = parse_script script in
      let cb kind p = match Stdlib.List.assoc_opt (path_str p ^ "@" ^ kind) sc with Some v -> v | None -> Continue in
      let (e, evs) = range (cb "push") (cb "pop") t in
      let tok ev = match ev with
        | Push (p, _) -> Printf.sprintf "+%d:%s" (Stdlib.List.length p) (step_tok (last p))
        | Pop (p, _) -> Printf.sprintf "-%d:%s" (Stdlib.List.length p) (step_tok (last p)) in
      Stdlib.List.map tok evs @ [match e with Continue -> "ret:nil" | Error _ -> "ret:err" | _ -> "ret:other"]
  | _ -> failwith ("range: unknown op " ^ op)

let () = register "range" handle
