(* family "names": internal/strs conversions and protogen name uniqueness (C42).
   Observation tokens exactly as harness/cmd/h/fam_names*.go prints them. *)
open Util
open NamesModel

(* "r:c,r:c" (hex rune : class) or "-" *)
let parse_tbl (t : string) =
  if t = "-" then [] else
  Stdlib.List.map (fun p ->
    match String.split_on_char ':' p with
    | [r; c] -> (n_of_hex r, n_of_hex c)
    | _ -> failwith ("bad table entry " ^ p)) (String.split_on_char ',' t)

let handle op args =
  match op, args with
  | "pure", [s] ->
      let s = bytes_of_hex s in
      let (cls, out) = fieldmask_path s in
      [hex_of_bytes (go_camel_case s); hex_of_bytes (json_camel_case s); hex_of_bytes (json_snake_case s);
       string_of_int (int_of_n cls); hex_of_bytes out]
  | "san", [s; t] -> [hex_of_bytes (go_sanitized_tbl (parse_tbl t) (bytes_of_hex s))]
  | _ -> failwith ("names: unknown op " ^ op)

let () = register "names" handle
