(* family "names": internal/strs conversions and protogen name uniqueness (C42).
   Observation tokens exactly as harness/cmd/h/fam_names*.go prints them. *)
open Util
open NamesModel

(* "r:c,r:c" (hex rune : class) or "-" *)
let parse_tbl (t : string) =
  if t = "-" then [] else
  Stdlib.List.map (fun p ->
    match String.split_on_char ':' p with
    | [r; c] -> (n_of_hex r, n_of_hex c)
    | _ -> failwith ("bad table entry " ^ p)) (String.split_on_char ',' t)

let bytes_of_string (s : string) : Byte.byte list =
  Stdlib.List.init (String.length s) (fun i -> byte_of_int (Char.code s.[i]))
let string_of_bytes (b : Byte.byte list) : string =
  String.concat "" (Stdlib.List.map (fun x -> String.make 1 (Char.chr (int_of_byte x))) b)
let split_list (t : string) = if t = "-" then [] else String.split_on_char ',' t
let join_list l = if l = [] then "-" else String.concat "," l

let field_of_tok (t : string) : UniqueModel.fieldspec =
  match String.split_on_char ':' t with
  | [n; "-"] -> { UniqueModel.f_name = bytes_of_string n; f_oneof = None }
  | [n; i] -> { UniqueModel.f_name = bytes_of_string n; f_oneof = Some (n_of_int (int_of_string i)) }
  | _ -> failwith ("bad field token " ^ t)

(* Tier T: the functions of internal/strs/strings.go as translated by srcmodel_strs
   (Gen/StrsGo.v), run on the same inputs as the hand model *)
let zs_of_hex s = Stdlib.List.map (fun b -> z_of_int (int_of_byte b)) (bytes_of_hex s)
let tok_of_outcome (o : BinNums.coq_Z list GoInt.outcome) : string =
  match o with
  | GoInt.Val l -> hex_of_bytes (Stdlib.List.map (fun z -> byte_of_int (int_of_z z)) l)
  | GoInt.Panic -> "panic"
  | GoInt.Fuel -> "fuel"

let handle op args =
  match op, args with
  | "go_pure", [s] ->
      let s = zs_of_hex s in
      [tok_of_outcome (StrsGo.go_GoCamelCase s); tok_of_outcome (StrsGo.go_JSONCamelCase s);
       tok_of_outcome (StrsGo.go_JSONSnakeCase s)]
  | "go_trim", [s; p] -> [tok_of_outcome (StrsGo.go_TrimEnumPrefix (zs_of_hex s) (zs_of_hex p))]
  | "trim", [s; p] -> [hex_of_bytes (StrsTrimModel.trim_enum_prefix (bytes_of_hex s) (bytes_of_hex p))]
  | "go_lower", [c] -> [hex_of_z (StrsGoBase.unicode_ToLower (z_of_hex c))]
  | "go_cls", [c] ->
      let c = z_of_hex c in
      [tok_of_bool (StrsGo.go_isASCIILower c); tok_of_bool (StrsGo.go_isASCIIUpper c); tok_of_bool (StrsGo.go_isASCIIDigit c)]
  | "pure", [s] ->
      let s = bytes_of_hex s in
      let (cls, out) = fieldmask_path s in
      [hex_of_bytes (go_camel_case s); hex_of_bytes (json_camel_case s); hex_of_bytes (json_snake_case s);
       string_of_int (int_of_n cls); hex_of_bytes out]
  | "san", [s; t] -> [hex_of_bytes (go_sanitized_tbl (parse_tbl t) (bytes_of_hex s))]
  | "unique", onames :: fields ->
      let onames = Stdlib.List.map bytes_of_string (split_list onames) in
      let fs = Stdlib.List.map field_of_tok fields in
      let (fgo, ogo) = UniqueModel.message_names fs onames in
      let h = UniqueModel.message_hist fs onames in
      [join_list (Stdlib.List.map string_of_bytes fgo); join_list (Stdlib.List.map string_of_bytes ogo);
       tok_of_bool (UniqueModel.oneof_getter_free h)]
  | "wrap", [msg; taken; members] ->
      let taken = Stdlib.List.map bytes_of_string (split_list taken) in
      [join_list (Stdlib.List.map (fun g -> string_of_bytes (UniqueModel.wrapper_name (bytes_of_string msg) taken (bytes_of_string g)))
                    (split_list members))]
  | "opaque", onames :: fields ->
      let onames = Stdlib.List.map bytes_of_string (split_list onames) in
      let fs = Stdlib.List.map (fun t ->
        match String.split_on_char ':' t with
        | [n; num; k; p] ->
            { OpaqueModel.of_name = bytes_of_string n; of_num = n_of_int (int_of_string num);
              of_oneof = (if k = "-" then None else Some (n_of_int (int_of_string k)));
              of_presence = bool_of_tok p }
        | _ -> failwith ("bad opaque field token " ^ t)) fields in
      let o = OpaqueModel.opaque_hook fs onames in
      let flags l = if l = [] then "-" else String.concat "" (Stdlib.List.map tok_of_bool l) in
      [join_list (Stdlib.List.map string_of_bytes o.OpaqueModel.o_camel);
       (if o.OpaqueModel.o_conflict = [] then "" else flags o.OpaqueModel.o_conflict);
       join_list (Stdlib.List.map string_of_bytes o.OpaqueModel.o_ocamel);
       flags o.OpaqueModel.o_oconflict]
  | _ -> failwith ("names: unknown op " ^ op)

let () = register "names" handle
