(* glue for family "dval" (C35): token stream (harness/cmd/h/fam_dval_ast.go dvalTokens) -> ValidateModel AST *)
open Util
open ValidateModel

type stream = { mutable toks : string list }
let next st = match st.toks with t :: r -> st.toks <- r; t | [] -> failwith "dval: short token stream"
let count st = int_of_n (n_of_hex (next st))
let rec times n f = if n = 0 then [] else let x = f () in x :: times (n - 1) f
let p_str st = Stdlib.List.map PBytes.b2n (bytes_of_hex (next st))
let p_optstr st = let t = next st in if t = "-" then None else Some (Stdlib.List.map PBytes.b2n (bytes_of_hex t))
let p_z st = z_of_hex (next st)
let p_optz st = let t = next st in if t = "-" then None else Some (z_of_hex t)
let p_bool st = bool_of_tok (next st)
let p_ranges st = let n = count st in times n (fun () -> let s = p_z st in let e = p_z st in (s, e))
let p_names st = let n = count st in times n (fun () -> p_str st)

let p_enum st : enum =
  let name = p_str st in
  let n = count st in
  let vals = times n (fun () -> let nm = p_str st in let num = p_optz st in { ev_name = nm; ev_num = num }) in
  let alias = p_bool st in
  let rn = p_names st in
  let rr = p_ranges st in
  { en_name = name; en_values = vals; en_alias = alias; en_resnames = rn; en_resranges = rr }

let p_field st : field =
  let name = p_str st in
  let num = p_z st in
  let label = p_z st in
  let ty = p_z st in
  let tn = p_str st in
  let oneof = p_optz st in
  let p3 = p_bool st in
  let json = p_optstr st in
  let packed = (let t = next st in if t = "-" then None else Some (bool_of_tok t)) in
  let ext = p_optstr st in
  { f_name = name; f_num = num; f_label = label; f_type = ty; f_tname = tn; f_oneof = oneof; f_p3opt = p3;
    f_json = json; f_packed = packed; f_extendee = ext }

let p_fields st = let n = count st in times n (fun () -> p_field st)
let p_enums st = let n = count st in times n (fun () -> p_enum st)
let rec p_msgs st : msg list =
  let n = count st in
  times n (fun () ->
    let name = p_str st in
    let fields = p_fields st in
    let oneofs = p_names st in
    let enums = p_enums st in
    let nested = p_msgs st in
    let exts = p_fields st in
    let xr = p_ranges st in
    let rr = p_ranges st in
    let rn = p_names st in
    let me = p_bool st in
    let ms = p_bool st in
    Msg (name, fields, oneofs, enums, nested, exts, xr, rr, rn, me, ms))

let sub_name = function
  | S_ref -> "ref" | S_nf -> "nf" | S_notenum -> "notenum" | S_notmsg -> "notmsg" | S_unk -> "unk" | S_tname -> "tname" | S_kind -> "kind"

let err_name = function
  | E_package -> "package" | E_name -> "name" | E_dup -> "dup" | E_oneofidx -> "oneofidx"
  | E_ftype s -> "ftype:" ^ sub_name s | E_xextendee s -> "xextendee:" ^ sub_name s | E_xtype s -> "xtype:" ^ sub_name s
  | E_e_resnames -> "e.resnames" | E_e_resranges -> "e.resranges" | E_e_empty -> "e.empty" | E_e_dupnum -> "e.dupnum"
  | E_e_noalias -> "e.noalias" | E_e_first -> "e.first" | E_e_nameconflict -> "e.nameconflict" | E_e_nonum -> "e.nonum"
  | E_e_resname -> "e.resname" | E_e_resnum -> "e.resnum"
  | E_m_resnames -> "m.resnames" | E_m_resranges -> "m.resranges" | E_m_extranges -> "m.extranges" | E_m_overlap -> "m.overlap"
  | E_m_dupnum -> "m.dupnum" | E_m_msgset -> "m.msgset" | E_m_badmsgset -> "m.badmsgset" | E_m_p3ext -> "m.p3ext"
  | E_f_resname -> "f.resname" | E_f_num -> "f.num" | E_f_card -> "f.card" | E_f_resnum -> "f.resnum" | E_f_inext -> "f.inext"
  | E_f_extendee -> "f.extendee" | E_f_p3o_syntax -> "f.p3o.syntax" | E_f_p3o_card -> "f.p3o.card" | E_f_p3o_oneof -> "f.p3o.oneof"
  | E_f_pack -> "f.pack" | E_f_group -> "f.group" | E_f_map -> "f.map" | E_f_p3req -> "f.p3req" | E_f_p3enum -> "f.p3enum"
  | E_f_implenum -> "f.implenum"
  | E_o_empty -> "o.empty" | E_o_consec -> "o.consec" | E_o_synth -> "o.synth" | E_o_card -> "o.card"
  | E_x_num -> "x.num" | E_x_card -> "x.card" | E_x_json -> "x.json" | E_x_oneof -> "x.oneof" | E_x_range -> "x.range"
  | E_x_msgset -> "x.msgset" | E_x_pack -> "x.pack" | E_x_group -> "x.group" | E_x_map -> "x.map" | E_x_p3 -> "x.p3"
  | E_outoffuel -> "outoffuel"

let handle op args =
  match op with
  | "validate" ->
    let st = { toks = args } in
    let allow = p_bool st in
    let syntax = n_of_hex (next st) in
    let pkg = p_str st in
    let enums = p_enums st in
    let msgs = p_msgs st in
    let exts = p_fields st in
    if st.toks <> [] then failwith "dval: trailing tokens";
    let f = { fl_syntax = syntax; fl_pkg = pkg; fl_enums = enums; fl_msgs = msgs; fl_exts = exts } in
    (match validate false allow f with
     | Accept -> ["ok"]
     | Reject e -> [err_name e])
  | "visible" ->
    (* <n> {<k> {<dep> <public>}*k}*n <subject> <target> *)
    let st = { toks = args } in
    let n = count st in
    let g = times n (fun () ->
      let k = count st in
      times k (fun () -> let d = nat_of_int (count st) in let p = p_bool st in (d, p))) in
    let a = nat_of_int (count st) in
    let f = nat_of_int (count st) in
    if st.toks <> [] then failwith "dval: trailing tokens";
    [tok_of_bool (VisibleModel.visible_b g a f)]
  | _ -> failwith ("dval: unknown op " ^ op)

let () = register "dval" handle
