(* family "refl" (C28): replays a history of protoreflect operations on the extracted contract
   model Msg/ReflectModel.v.  Token formats must agree with harness/cmd/h/fam_refl.go:

     defs <id> <ntypes> { T<k> { <num> <d|e> <scalar> }*k }                     | ok
     ops <id> <flavour> <init value> <nops> <op>...                             | { <result> ; }...
       op = <code> <r|w> <pathlen> { F <num> | L <num> <idx> | M <num> <key> }* <args>
   Schemas are the ones stored by family msg (Fam_msg.schema_of_id). *)
open Util
open MsgValue
open ReflectModel

let defs : (string, rdefs) Hashtbl.t = Hashtbl.create 64
let defs_of_id id = try Hashtbl.find defs id with Not_found -> { rd_def = []; rd_enum0 = [] }

let parse_defs toks =
  match toks with
  | n :: rest ->
    let n = int_of_string n in
    let rec types k toks dacc eacc =
      if k = 0 then { rd_def = Stdlib.List.rev dacc; rd_enum0 = Stdlib.List.rev eacc }
      else match toks with
        | t :: r when String.length t > 0 && t.[0] = 'T' ->
          let cnt = int_of_string (String.sub t 1 (String.length t - 1)) in
          let rec ents j toks d e =
            if j = 0 then (Stdlib.List.rev d, Stdlib.List.rev e, toks)
            else match toks with
              | num :: "d" :: s :: r -> ents (j - 1) r ((n_of_hex num, Fam_msg.parse_scalar s) :: d) e
              | num :: "e" :: s :: r ->
                (match Fam_msg.parse_scalar s with
                 | SZ z -> ents (j - 1) r d ((n_of_hex num, z) :: e)
                 | _ -> failwith "refl: enum default")
              | _ -> failwith "refl: short defs" in
          let (d, e, r') = ents cnt r [] [] in
          types (k - 1) r' (d :: dacc) (e :: eacc)
        | _ -> failwith "refl: bad defs tokens" in
    types n rest [] []
  | [] -> failwith "refl: empty defs"

(* n values *)
let rec parse_values n toks acc =
  if n = 0 then (Stdlib.List.rev acc, toks)
  else let (v, r) = Fam_msg.parse_value toks in parse_values (n - 1) r (v :: acc)

let parse_path toks =
  match toks with
  | n :: rest ->
    let rec go k toks acc =
      if k = 0 then (Stdlib.List.rev acc, toks)
      else match toks with
        | "F" :: f :: r -> go (k - 1) r (PF (n_of_hex f) :: acc)
        | "L" :: f :: i :: r -> go (k - 1) r (PL (n_of_hex f, n_of_hex i) :: acc)
        | "M" :: f :: key :: r -> go (k - 1) r (PM (n_of_hex f, Fam_msg.parse_scalar key) :: acc)
        | _ -> failwith "refl: bad path" in
    go (int_of_string n) rest []
  | [] -> failwith "refl: missing path"

let via = function "g" -> true | "m" -> false | s -> failwith ("refl: via " ^ s)

(* one op: returns (step, remaining tokens) *)
let parse_op toks =
  match toks with
  | code :: nav :: rest ->
    let w = (nav = "w") in
    let (path, rest) = parse_path rest in
    let one toks = let (v, r) = Fam_msg.parse_value toks in (v, r) in
    let (op, rest) =
      match code, rest with
      | ("has" | "xhas"), f :: r -> (RHas (n_of_hex f), r)
      | ("get" | "xget"), f :: r -> (RGet (n_of_hex f), r)
      | ("clear" | "xclr"), f :: r -> (RClear (n_of_hex f), r)
      | ("set" | "xset"), f :: n :: r ->
        let (vs, r') = parse_values (int_of_string n) r [] in (RSet (n_of_hex f, vs), r')
      | "mut", f :: r -> (RMutable (n_of_hex f), r)
      | "newf", f :: r -> (RNewField (n_of_hex f), r)
      | "which", o :: r -> (RWhich (n_of_hex o), r)
      | "range", r -> (RRange, r)
      | "getunk", r -> (RGetUnknown, r)
      | "setunk", b :: r -> (RSetUnknown (bytes_of_hex b), r)
      | "llen", f :: g :: r -> (RList (n_of_hex f, via g, LLen), r)
      | "lget", f :: g :: i :: r -> (RList (n_of_hex f, via g, LGet (n_of_hex i)), r)
      | "lset", f :: g :: i :: r -> let (v, r') = one r in (RList (n_of_hex f, via g, LSet (n_of_hex i, v)), r')
      | "lapp", f :: g :: r -> let (v, r') = one r in (RList (n_of_hex f, via g, LAppend v), r')
      | "ltrunc", f :: g :: n :: r -> (RList (n_of_hex f, via g, LTruncate (n_of_hex n)), r)
      | "lappmut", f :: g :: r -> (RList (n_of_hex f, via g, LAppendMutable), r)
      | "lnew", f :: g :: r -> (RList (n_of_hex f, via g, LNewElement), r)
      | "mlen", f :: g :: r -> (RMap (n_of_hex f, via g, MLen), r)
      | "mget", f :: g :: k :: r -> (RMap (n_of_hex f, via g, MGet (Fam_msg.parse_scalar k)), r)
      | "mset", f :: g :: k :: r -> let (v, r') = one r in (RMap (n_of_hex f, via g, MSet (Fam_msg.parse_scalar k, v)), r')
      | "mclr", f :: g :: k :: r -> (RMap (n_of_hex f, via g, MClear (Fam_msg.parse_scalar k)), r)
      | "mhas", f :: g :: k :: r -> (RMap (n_of_hex f, via g, MHas (Fam_msg.parse_scalar k)), r)
      | "mrange", f :: g :: r -> (RMap (n_of_hex f, via g, MRange), r)
      | "mmut", f :: g :: k :: r -> (RMap (n_of_hex f, via g, MMutable (Fam_msg.parse_scalar k)), r)
      | "mnew", f :: g :: r -> (RMap (n_of_hex f, via g, MNewValue), r)
      | _ -> failwith ("refl: bad op " ^ code) in
    ({ rs_w = w; rs_path = path; rs_op = op }, rest)
  | _ -> failwith "refl: short op"

let out_tokens (o : rout) : string list =
  let vals vs = Stdlib.List.concat_map Fam_msg.value_tokens vs in
  match o with
  | ONone -> []
  | OBool b -> ["h" ^ tok_of_bool b]
  | ONum n -> ["n" ^ hex_of_n n]
  | OVal (valid, vs) -> ("v" ^ tok_of_bool valid) :: string_of_int (Stdlib.List.length vs) :: vals vs
  | OOpt None -> ["o0"]
  | OOpt (Some v) -> "o1" :: Fam_msg.value_tokens v
  | OBytes b -> ["u" ^ hex_of_bytes b]
  | OState (fs, u) -> "s" :: Fam_msg.value_tokens (VMsg (fs, u))
  | OPanic -> ["p"]

let handle op args =
  match op, args with
  | "defs", id :: toks -> Hashtbl.replace defs id (parse_defs toks); ["ok"]
  | "ops", id :: _flavour :: toks ->
    let s = Fam_msg.schema_of_id id and d = defs_of_id id in
    let (init, toks) = Fam_msg.parse_value toks in
    (match toks with
     | n :: toks ->
       let rec steps k toks acc =
         if k = 0 then (if toks <> [] then failwith "refl: trailing op tokens"; Stdlib.List.rev acc)
         else let (st, r) = parse_op toks in steps (k - 1) r (st :: acc) in
       let sts = steps (int_of_string n) toks [] in
       (* hypothesis of the invariant theorems, checked on every case *)
       if not (refl_wf s Datatypes.O init) then failwith "refl: initial state is not well formed";
       let (_, outs) = refl_run s d init sts in
       (* the concrete machines of the refinement theorems (C28_dynamic_refines_abstract,
          C28_opaque_refines_abstract) run next to the contract model: the hypothesis md_ok must
          hold of the real schema and the results must coincide *)
       let md0 = (match s with m :: _ -> m | [] -> []) in
       let aouts = Stdlib.List.map fst outs in
       let concrete name couts =
         if couts <> aouts then failwith ("refl: concrete machine " ^ name ^ " disagrees with the contract model") in
       (match _flavour with
        | "dyn" | "dynrnd" | "opaque" ->
          if not (Stdlib.List.for_all ReflectCellModel.refl_md_okb s) then
            failwith "refl: schema violates md_ok (hypothesis of the refinement theorems)";
          let macc = MsgValue.msg_macc_of init in
          if _flavour = "opaque" then
            concrete "opaque" (snd (ReflectCellModel.cm_run ReflectCellModel.opq_ops s d
              (ReflectCellModel.cm_of_fields ReflectCellModel.opq_ops md0 ReflectCellModel.opq_lazycell macc) sts))
          else
            concrete "dynamicpb" (snd (ReflectCellModel.cm_run ReflectCellModel.dyn_ops s d
              (ReflectCellModel.cm_of_fields ReflectCellModel.dyn_ops md0 (fun _ _ -> None) macc) sts))
        | _ -> ());
       Stdlib.List.concat (Stdlib.List.map2 (fun st (o, m) ->
           out_tokens o @ (if refl_dumps st.rs_op then "s" :: Fam_msg.value_tokens m else []) @ [";"]) sts outs)
     | [] -> failwith "refl: missing op count")
  | _ -> failwith ("refl: unknown op " ^ op)

let () = register "refl" handle
